#![no_main]
//! Coverage-guided companion of C17 (and of the parse part of C10): bytes -> specification text ->
//! LogSpecification::parse, with C17's semantic oracle inside the target (a target that only waits
//! for crashes would check memory safety, not the property):
//!   * no panic;
//!   * Err <=> the reference parser says malformed;
//!   * the carried spec (Ok value or the one attached to the error) decides like the reference
//!     parser's salvaged filters on the level x target grid (skipped where the documented grammar
//!     leaves the meaning undefined);
//!   * Display -> parse round trip of whatever was parsed decides identically.
use flexi_logger::{FlexiLoggerError, LogSpecification};
use flvlib::spec::{grid_targets, lvl, ref_parse};
use libfuzzer_sys::fuzz_target;

fuzz_target!(|data: &[u8]| {
    let text = String::from_utf8_lossy(data).to_string();
    let rp = ref_parse(&text);
    let (is_err, carried) = match LogSpecification::parse(&text) {
        Ok(s) => (false, s),
        Err(FlexiLoggerError::Parse(_, s)) => (true, s),
        Err(e) => panic!("C17: unexpected error kind for {text:?}: {e:?}"),
    };
    assert_eq!(is_err, rp.malformed, "C17: parse({text:?}) returned Err={is_err}, reference parser malformed={}", rp.malformed);
    if !rp.undefined {
        let targets = grid_targets(&rp.spec.names());
        for t in &targets {
            for l in 1..=5u8 {
                assert_eq!(
                    carried.enabled(lvl(l), t),
                    rp.spec.enabled(l, t),
                    "C17: parse({text:?}): level {l} target {t:?} decided differently from the well-formed parts {}",
                    rp.spec.render()
                );
            }
        }
        assert_eq!(carried.text_filter().is_some(), rp.spec.regex.is_some(), "C17: regex presence for {text:?}");
        // Display round trip (the regex is not carried by the text form)
        if !rp.spec.names().iter().any(|n| n.contains(|c: char| c.is_whitespace() || c == ',' || c == '=' || c == '/')) {
            let shown = carried.to_string();
            if let Ok(again) = LogSpecification::parse(&shown) {
                for t in &targets {
                    for l in 1..=5u8 {
                        assert_eq!(again.enabled(lvl(l), t), carried.enabled(lvl(l), t), "C17: Display form {shown:?} of parse({text:?}) decides differently (level {l}, target {t:?})");
                    }
                }
            } else {
                panic!("C17: Display form {shown:?} of parse({text:?}) does not parse");
            }
        }
    }
    // TOML front end: never panics
    let _ = LogSpecification::from_toml(&text);
});
