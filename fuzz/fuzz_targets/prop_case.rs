#![no_main]
//! Coverage-guided stage for the properties whose cases run in-process: the fuzzer's bytes are
//! the random stream of the property's own proptest strategy (pass-through RNG), the generated
//! case runs through the property's own oracle (flvlib::runner::fuzz_one). The property is chosen
//! with the environment variable FLV_FUZZ_PROP (one binary for all of them).
use flvlib::{props, runner};
use libfuzzer_sys::fuzz_target;
use std::sync::OnceLock;

static WHICH: OnceLock<String> = OnceLock::new();

fuzz_target!(|data: &[u8]| {
    let id = WHICH.get_or_init(|| std::env::var("FLV_FUZZ_PROP").expect("FLV_FUZZ_PROP"));
    match id.as_str() {
        "C01" => runner::fuzz_one::<props::c01::P>(data),
        "C02" => runner::fuzz_one::<props::c02::P>(data),
        "C05" => runner::fuzz_one::<props::c05::P>(data),
        "C06" => runner::fuzz_one::<props::c06::P>(data),
        "C07" => runner::fuzz_one::<props::c07::P>(data),
        "C08" => runner::fuzz_one::<props::c08::P>(data),
        "C09" => runner::fuzz_one::<props::c09::P>(data),
        "C10" => runner::fuzz_one::<props::c10::P>(data),
        "C14" => runner::fuzz_one::<props::c14::P>(data),
        "C15" => runner::fuzz_one::<props::c15::P>(data),
        "C16" => runner::fuzz_one::<props::c16::P>(data),
        "C17" => runner::fuzz_one::<props::c17::P>(data),
        "C18" => runner::fuzz_one::<props::c18::P>(data),
        "C19" => runner::fuzz_one::<props::c19::P>(data),
        other => panic!("prop_case: property {other} has no in-process fuzz entry"),
    }
});
