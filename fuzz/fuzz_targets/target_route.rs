#![no_main]
//! Coverage-guided companion of C10 / C13: bytes -> (target string, level, module path, message) ->
//! Log::enabled and Log::log of a logger with two additional recording writers. Oracle inside the
//! target: no panic, and the routing model for brace targets:
//!   * a target that starts with '{' names the writers between the braces (closing brace optional);
//!     each registered name gets the record exactly once, nobody else gets it;
//!   * the default channel gets it iff _Default is named and the spec enables the module path;
//!   * other targets go to the default channel iff the spec enables the target.
use arbitrary::{Arbitrary, Unstructured};
use flexi_logger::{ErrorChannel, LogSpecification, Logger};
use flvlib::spec::{lvl, Recorder};
use libfuzzer_sys::fuzz_target;

#[derive(Debug)]
struct Input {
    target: String,
    level: u8,
    module: Option<String>,
    msg: String,
    spec_info_for_a: bool,
}
impl<'a> Arbitrary<'a> for Input {
    fn arbitrary(u: &mut Unstructured<'a>) -> arbitrary::Result<Self> {
        let level = 1 + u.int_in_range(0..=4u8)?;
        let spec_info_for_a = u.arbitrary()?;
        let module = if u.arbitrary()? {
            let n = u.int_in_range(0..=6usize)?.min(u.len());
            Some(String::from_utf8_lossy(u.bytes(n)?).to_string())
        } else {
            None
        };
        let mlen = u.int_in_range(0..=8usize)?.min(u.len());
        let msg = String::from_utf8_lossy(u.bytes(mlen)?).to_string();
        let rest = u.len();
        let target = String::from_utf8_lossy(u.bytes(rest)?).to_string();
        Ok(Input { target, level, module, msg, spec_info_for_a })
    }
}

fuzz_target!(|input: Input| {
    let spec = if input.spec_info_for_a { LogSpecification::parse("warn, a = info").unwrap() } else { LogSpecification::parse("debug").unwrap() };
    let model_enabled = |level: u8, target: &str| -> bool {
        if input.spec_info_for_a {
            if target.starts_with('a') { level <= 3 } else { level <= 2 }
        } else {
            level <= 4
        }
    };
    let (prim, prim_rec) = Recorder::new(5);
    let (w1, r1) = Recorder::new(5);
    let (w2, r2) = Recorder::new(5);
    let (log, handle) = Logger::with(spec)
        .log_to_writer(Box::new(prim))
        .add_writer("W1", Box::new(w1))
        .add_writer("Wé", Box::new(w2))
        .error_channel(ErrorChannel::DevNull)
        .panic_if_error_channel_is_broken(false)
        .build()
        .unwrap();
    let md = log::Metadata::builder().level(lvl(input.level)).target(&input.target).build();
    let _ = log.enabled(&md);
    log.log(
        &log::Record::builder()
            .args(format_args!("{}", input.msg))
            .level(lvl(input.level))
            .target(&input.target)
            .module_path(input.module.as_deref())
            .build(),
    );
    let got = (prim_rec.handed.lock().unwrap().len(), r1.handed.lock().unwrap().len(), r2.handed.lock().unwrap().len());
    let want = if let Some(rest) = input.target.strip_prefix('{') {
        let names = rest.strip_suffix('}').unwrap_or(rest);
        let list: Vec<&str> = names.split(',').collect();
        let n1 = list.iter().filter(|n| **n == "W1").count();
        let n2 = list.iter().filter(|n| **n == "Wé").count();
        let dflt = list.iter().any(|n| *n == "_Default") && model_enabled(input.level, input.module.as_deref().unwrap_or(""));
        (usize::from(dflt), n1, n2)
    } else {
        (usize::from(model_enabled(input.level, &input.target)), 0, 0)
    };
    assert_eq!(got, want, "C13/C10: target {:?} level {} module {:?}: (default, W1, Wé) received {got:?}, routing model {want:?}", input.target, input.level, input.module);
    handle.shutdown();
});
