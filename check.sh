#!/bin/sh
# usage: check.sh <property id> <quick|thorough>
# Rebuilds the harness (and flexi_logger with the verif_hooks feature) from /repo's current
# working tree, then runs the check. Exit: 0 held, 1 violation, 2 inconclusive/infrastructure.
# The thorough tier adds the coverage-guided stage (tools/fuzz_stage.py, libFuzzer) for the
# properties that have one; it runs only if the generated-case stage found nothing.
# C04, C10 and C12 run from a second build of the harness with its feature `watcher` (flexi_logger's
# specfile watcher thread takes part in some of their cases), kept in harness/target-w.
ID="$1"; TIER="${2:-quick}"
ROOT="$(cd "$(dirname "$0")" && pwd)"
cd "$ROOT/harness" || exit 2
if ! CARGO_NET_OFFLINE=true cargo build --release --offline >"$ROOT/harness/build.log" 2>&1; then
  echo "BUILD FAILED (see $ROOT/harness/build.log)"; tail -30 "$ROOT/harness/build.log"; exit 2
fi
FLV="$ROOT/harness/target/release/flv"
if [ "$ID" = "C12" ] || [ "$ID" = "C04" ] || [ "$ID" = "C10" ]; then
  if ! CARGO_NET_OFFLINE=true cargo build --release --offline --features watcher --target-dir "$ROOT/harness/target-w" >"$ROOT/harness/build-w.log" 2>&1; then
    echo "BUILD FAILED (see $ROOT/harness/build-w.log)"; tail -30 "$ROOT/harness/build-w.log"; exit 2
  fi
  FLV="$ROOT/harness/target-w/release/flv"
fi
cd "$ROOT" || exit 2
if [ "$TIER" != "thorough" ]; then
  exec "$FLV" check "$ID" --tier "$TIER"
fi
"$FLV" check "$ID" --tier thorough
CODE=$?
[ "$CODE" -ne 0 ] && exit "$CODE"
exec python3 "$ROOT/tools/fuzz_stage.py" "$ID"
