#!/bin/sh
# usage: check.sh <property id> <quick|thorough>
# Rebuilds the harness (and flexi_logger with the verif_hooks feature) from /repo's current
# working tree, then runs the check. Exit: 0 held, 1 violation, 2 inconclusive/infrastructure.
ID="$1"; TIER="${2:-quick}"
ROOT="$(cd "$(dirname "$0")" && pwd)"
cd "$ROOT/harness" || exit 2
if ! CARGO_NET_OFFLINE=true cargo build --release --offline >"$ROOT/harness/build.log" 2>&1; then
  echo "BUILD FAILED (see $ROOT/harness/build.log)"; tail -30 "$ROOT/harness/build.log"; exit 2
fi
cd "$ROOT" || exit 2
exec "$ROOT/harness/target/release/flv" check "$ID" --tier "$TIER"
