//! Directory observation and the reference name grammar / family predicate.
use crate::fscn::{FileCfg, Nam};
use chrono::{NaiveDate, NaiveDateTime};
use std::io::Read;
use std::os::unix::fs::MetadataExt;
use std::path::Path;

#[derive(Clone, Debug, PartialEq, Eq)]
pub enum EKind {
    File,
    Dir,
    Symlink(String),
    Other,
}

#[derive(Clone, Debug)]
pub struct Entry {
    pub name: String,
    pub raw_name: Vec<u8>,
    pub kind: EKind,
    pub ino: u64,
    pub size: u64,
    pub mtime_ns: i128,
    /// raw bytes of the file
    pub bytes: Vec<u8>,
    /// decompressed bytes for *.gz (None if gunzip failed), raw bytes otherwise
    pub content: Option<Vec<u8>>,
}

pub fn gunzip(b: &[u8]) -> Option<Vec<u8>> {
    let mut d = flate2::read::GzDecoder::new(b);
    let mut out = Vec::new();
    match d.read_to_end(&mut out) {
        Ok(_) => Some(out),
        Err(_) => None,
    }
}

pub fn snapshot(dir: &Path) -> Vec<Entry> {
    use std::os::unix::ffi::OsStrExt;
    let mut v = Vec::new();
    let Ok(rd) = std::fs::read_dir(dir) else {
        return v;
    };
    for e in rd.flatten() {
        let p = e.path();
        let raw_name = e.file_name().as_bytes().to_vec();
        let name = e.file_name().to_string_lossy().to_string();
        let Ok(md) = std::fs::symlink_metadata(&p) else {
            continue;
        };
        let ft = md.file_type();
        let kind = if ft.is_symlink() {
            EKind::Symlink(
                std::fs::read_link(&p)
                    .map(|t| t.to_string_lossy().to_string())
                    .unwrap_or_default(),
            )
        } else if ft.is_dir() {
            EKind::Dir
        } else if ft.is_file() {
            EKind::File
        } else {
            EKind::Other
        };
        let bytes = if kind == EKind::File {
            std::fs::read(&p).unwrap_or_default()
        } else {
            Vec::new()
        };
        let content = if name.ends_with(".gz") && kind == EKind::File {
            gunzip(&bytes)
        } else {
            Some(bytes.clone())
        };
        v.push(Entry {
            name,
            raw_name,
            kind,
            ino: md.ino(),
            size: md.len(),
            mtime_ns: i128::from(md.mtime()) * 1_000_000_000 + i128::from(md.mtime_nsec()),
            bytes,
            content,
        });
    }
    v.sort_by(|a, b| a.raw_name.cmp(&b.raw_name));
    v
}

#[derive(Clone, Debug, PartialEq, Eq, PartialOrd, Ord)]
pub enum Key {
    Num(u64),
    Ts {
        dt: NaiveDateTime,
        /// None sorts before Some(_): the file without `.restart-NNNN` is the first of its instant
        restart: Option<u32>,
    },
}

#[derive(Clone, Debug, PartialEq, Eq)]
pub enum Kind {
    /// the only file of a non-rotating logger
    Plain,
    Current,
    Rotated(Key),
}

#[derive(Clone, Debug, PartialEq, Eq)]
pub struct Parsed {
    pub kind: Kind,
    pub gz: bool,
    pub start_ts: Option<String>,
    pub infix: String,
}

fn is_start_ts(s: &str) -> bool {
    // YYYY-MM-DD_hh-mm-ss
    let b = s.as_bytes();
    if b.len() != 19 {
        return false;
    }
    for (i, c) in b.iter().enumerate() {
        let ok = match i {
            4 | 7 | 13 | 16 => *c == b'-',
            10 => *c == b'_',
            _ => c.is_ascii_digit(),
        };
        if !ok {
            return false;
        }
    }
    true
}

/// exact parse: the text must be what `fmt` renders for the parsed value
pub fn parse_ts_exact(text: &str, fmt: &str) -> Option<NaiveDateTime> {
    let dt = match NaiveDateTime::parse_from_str(text, fmt) {
        Ok(dt) => dt,
        Err(_) => match NaiveDate::parse_from_str(text, fmt) {
            Ok(d) => {
                // formats without (complete) time: chrono can still have parsed hour/minute
                // fields; re-render below decides
                d.and_hms_opt(0, 0, 0)?
            }
            Err(_) => return None,
        },
    };
    // for date-only formats with partial time (e.g. "%Y-%m-%d_%H") NaiveDateTime parsing fails
    // with NotEnough and NaiveDate parsing ignores... so compare through re-rendering with a
    // candidate list of times
    if dt.format(fmt).to_string() == text {
        return Some(dt);
    }
    // partial time formats: try to recover hour/minute from a scan
    for h in 0..24 {
        for m in [0u32] {
            if let Some(c) = dt.date().and_hms_opt(h, m, 0) {
                if c.format(fmt).to_string() == text {
                    return Some(c);
                }
            }
        }
    }
    for h in 0..24 {
        for m in 0..60 {
            if let Some(c) = dt.date().and_hms_opt(h, m, 0) {
                if c.format(fmt).to_string() == text {
                    return Some(c);
                }
            }
        }
    }
    None
}

/// Reference family predicate: `None` = foreign.
pub fn classify(cfg: &FileCfg, name: &str) -> Option<Parsed> {
    let mut rest = name;
    let mut gz = false;
    if cfg.suffix.as_deref() != Some("gz") {
        if let Some(r) = rest.strip_suffix(".gz") {
            gz = true;
            rest = r;
        }
    }
    if let Some(sfx) = &cfg.suffix {
        rest = rest.strip_suffix(sfx.as_str())?.strip_suffix('.')?;
    }
    let prefix = cfg.static_prefix();
    rest = rest.strip_prefix(prefix.as_str())?;
    let mut fixed_nonempty = !prefix.is_empty();
    let mut start_ts = None;
    if cfg.start_ts {
        if fixed_nonempty {
            rest = rest.strip_prefix('_')?;
        }
        if rest.len() < 19 || !rest.is_char_boundary(19) {
            return None;
        }
        let (ts, r) = rest.split_at(19);
        if !is_start_ts(ts) {
            return None;
        }
        start_ts = Some(ts.to_string());
        rest = r;
        fixed_nonempty = true;
    }
    let Some(rot) = &cfg.rot else {
        return if rest.is_empty() && !gz {
            Some(Parsed {
                kind: Kind::Plain,
                gz,
                start_ts,
                infix: String::new(),
            })
        } else {
            None
        };
    };
    if rest.is_empty() {
        // a static current infix that is empty: the current file carries no infix at all
        return if rot.nam.current_token().as_deref() == Some("") {
            Some(Parsed {
                kind: Kind::Current,
                gz,
                start_ts,
                infix: String::new(),
            })
        } else {
            None
        };
    }
    if fixed_nonempty {
        rest = rest.strip_prefix('_')?;
    }
    let infix = rest;
    let kind = classify_infix(&rot.nam, infix)?;
    Some(Parsed {
        kind,
        gz,
        start_ts,
        infix: infix.to_string(),
    })
}

pub fn classify_infix(nam: &Nam, infix: &str) -> Option<Kind> {
    if let Some(tok) = nam.current_token() {
        if infix == tok && !tok.is_empty() {
            return Some(Kind::Current);
        }
    }
    match nam {
        Nam::Numbers | Nam::NumbersDirect => {
            let digits = infix.strip_prefix('r')?;
            if digits.len() >= 5 && digits.bytes().all(|b| b.is_ascii_digit()) {
                Some(Kind::Rotated(Key::Num(digits.parse().ok()?)))
            } else {
                None
            }
        }
        _ => {
            let fmt = nam.ts_format()?;
            let (ts_part, restart) = match infix.split_once(".restart-") {
                Some((t, r)) => {
                    if r.len() >= 4 && r.bytes().all(|b| b.is_ascii_digit()) {
                        (t, Some(r.parse::<u32>().ok()?))
                    } else {
                        return None;
                    }
                }
                None => (infix, None),
            };
            let dt = parse_ts_exact(ts_part, &fmt)?;
            Some(Kind::Rotated(Key::Ts { dt, restart }))
        }
    }
}

#[derive(Clone, Debug)]
pub struct FamFile {
    pub name: String,
    pub parsed: Parsed,
    pub content: Vec<u8>,
    pub size: u64,
    pub ino: u64,
}

/// Family files of `cfg` in `dir`, oldest to newest (semantic order, *not* lexicographic),
/// the current file last. Err: something that makes the family itself ill-formed.
pub fn family(cfg: &FileCfg, snap: &[Entry]) -> Result<Vec<FamFile>, String> {
    let mut fam = Vec::new();
    for e in snap {
        if e.kind != EKind::File {
            continue;
        }
        if let Some(p) = classify(cfg, &e.name) {
            // (a plain file whose configured suffix is "gz" is taken as it is)
            let content = if p.gz { e.content.clone() } else { Some(e.bytes.clone()) }.ok_or_else(|| format!("{} does not gunzip", e.name))?;
            fam.push(FamFile {
                name: e.name.clone(),
                parsed: p,
                content,
                size: e.size,
                ino: e.ino,
            });
        }
    }
    // (start_ts, rotated before current, key)
    fam.sort_by(|a, b| {
        let ka = (
            a.parsed.start_ts.clone(),
            match &a.parsed.kind {
                Kind::Rotated(k) => (0, Some(k.clone())),
                Kind::Current | Kind::Plain => (1, None),
            },
        );
        let kb = (
            b.parsed.start_ts.clone(),
            match &b.parsed.kind {
                Kind::Rotated(k) => (0, Some(k.clone())),
                Kind::Current | Kind::Plain => (1, None),
            },
        );
        ka.cmp(&kb).then(a.parsed.gz.cmp(&b.parsed.gz).reverse())
    });
    // the same chunk present both plain and compressed (only possible after a crash)
    Ok(fam)
}

pub fn stream_of(fam: &[FamFile]) -> Vec<u8> {
    let mut out = Vec::new();
    for f in fam {
        out.extend_from_slice(&f.content);
    }
    out
}

pub fn names(snap: &[Entry]) -> Vec<String> {
    snap.iter().map(|e| e.name.clone()).collect()
}
