//! Specification engine: reference matcher, reference parser, strategies, recording writers,
//! and the process-global switchboard logger (so that the `log` macros and the facade's
//! max-level gate are in the path).
use flexi_logger::writers::LogWriter;
use flexi_logger::{DeferredNow, LogSpecBuilder, LogSpecification};
use log::LevelFilter;
use proptest::prelude::*;
use serde::{Deserialize, Serialize};
use std::sync::{Arc, Mutex, RwLock};

pub const LEVELS: [log::Level; 5] = [
    log::Level::Error,
    log::Level::Warn,
    log::Level::Info,
    log::Level::Debug,
    log::Level::Trace,
];

pub fn lf(n: u8) -> LevelFilter {
    match n {
        0 => LevelFilter::Off,
        1 => LevelFilter::Error,
        2 => LevelFilter::Warn,
        3 => LevelFilter::Info,
        4 => LevelFilter::Debug,
        _ => LevelFilter::Trace,
    }
}
pub fn lf_num(l: LevelFilter) -> u8 {
    match l {
        LevelFilter::Off => 0,
        LevelFilter::Error => 1,
        LevelFilter::Warn => 2,
        LevelFilter::Info => 3,
        LevelFilter::Debug => 4,
        LevelFilter::Trace => 5,
    }
}
pub fn lvl_num(l: log::Level) -> u8 {
    match l {
        log::Level::Error => 1,
        log::Level::Warn => 2,
        log::Level::Info => 3,
        log::Level::Debug => 4,
        log::Level::Trace => 5,
    }
}
pub fn lvl(n: u8) -> log::Level {
    LEVELS[(n.clamp(1, 5) - 1) as usize]
}
pub const LEVEL_WORDS: [&str; 6] = ["off", "error", "warn", "info", "debug", "trace"];

/// Reference model of a specification.
#[derive(Clone, Debug, Serialize, Deserialize, PartialEq, Eq, Default)]
pub struct MSpec {
    /// (module name or None for the default, level filter 0..=5); each name at most once
    pub filters: Vec<(Option<String>, u8)>,
    pub regex: Option<String>,
}

impl MSpec {
    /// the documented decision: the longest specified module name that is a prefix of the
    /// target decides; else the default; else off
    pub fn enabled(&self, level: u8, target: &str) -> bool {
        let mut best: Option<(&str, u8)> = None;
        for (n, l) in &self.filters {
            if let Some(n) = n {
                if target.starts_with(n.as_str()) && best.is_none_or(|(b, _)| n.len() > b.len()) {
                    best = Some((n.as_str(), *l));
                }
            }
        }
        let filter = match best {
            Some((_, l)) => l,
            None => self
                .filters
                .iter()
                .find(|(n, _)| n.is_none())
                .map_or(0, |(_, l)| *l),
        };
        level <= filter
    }
    pub fn text_ok(&self, msg: &str) -> bool {
        match &self.regex {
            None => true,
            Some(r) => regex::Regex::new(r).map_or(true, |re| re.is_match(msg)),
        }
    }
    pub fn max_level(&self) -> u8 {
        self.filters.iter().map(|(_, l)| *l).max().unwrap_or(0)
    }
    pub fn names(&self) -> Vec<String> {
        self.filters.iter().filter_map(|(n, _)| n.clone()).collect()
    }
    /// text form from which `LogSpecification::parse` must produce the same decisions
    pub fn render(&self) -> String {
        let mut parts = Vec::new();
        for (n, l) in &self.filters {
            match n {
                None => parts.push(LEVEL_WORDS[*l as usize].to_string()),
                Some(n) => parts.push(format!("{n}={}", LEVEL_WORDS[*l as usize])),
            }
        }
        let mut s = parts.join(",");
        if let Some(r) = &self.regex {
            s.push('/');
            s.push_str(r);
        }
        s
    }
    pub fn build_with_builder(&self) -> LogSpecification {
        // LogSpecBuilder::new() starts with a default of `off`: equivalent to "no default"
        let mut b = LogSpecBuilder::new();
        for (n, l) in &self.filters {
            match n {
                None => {
                    b.default(lf(*l));
                }
                Some(n) => {
                    b.module(n, lf(*l));
                }
            }
        }
        match &self.regex {
            Some(r) => b.build_with_textfilter(regex::Regex::new(r).ok()),
            None => b.build(),
        }
    }
    pub fn build_by_parse(&self) -> Result<LogSpecification, String> {
        LogSpecification::parse(self.render()).map_err(|e| format!("{e:?}"))
    }
}

// ---- reference parser (from the documented grammar) ------------------------------------------

#[derive(Clone, Debug, PartialEq, Eq)]
pub struct RefParse {
    pub spec: MSpec,
    pub malformed: bool,
    /// input contains something the documented grammar does not define (empty module name,
    /// more than one default level, the same module twice): decisions are not compared
    pub undefined: bool,
}

fn parse_level(s: &str) -> Option<u8> {
    LEVEL_WORDS
        .iter()
        .position(|w| w.eq_ignore_ascii_case(s) || w.to_lowercase() == s.to_lowercase())
        .map(|p| p as u8)
}

pub fn ref_parse(input: &str) -> RefParse {
    let mut out = RefParse {
        spec: MSpec::default(),
        malformed: false,
        undefined: false,
    };
    let segs: Vec<&str> = input.split('/').collect();
    if segs.len() > 2 {
        out.malformed = true;
        return out;
    }
    let mut defaults = 0;
    for part in segs[0].split(',') {
        let part = part.trim();
        if part.is_empty() {
            continue;
        }
        let kv: Vec<&str> = part.split('=').collect();
        let has_ws = |s: &str| s.chars().any(char::is_whitespace);
        match kv.len() {
            1 => {
                let p = kv[0].trim();
                if has_ws(p) {
                    out.malformed = true;
                    continue;
                }
                match parse_level(p) {
                    Some(l) => {
                        defaults += 1;
                        out.spec.filters.push((None, l));
                    }
                    None => out.spec.filters.push((Some(p.to_string()), 5)),
                }
            }
            2 => {
                let name = kv[0].trim();
                let level = kv[1].trim();
                if has_ws(name) {
                    out.malformed = true;
                    continue;
                }
                if level.is_empty() {
                    out.spec.filters.push((Some(name.to_string()), 5));
                } else {
                    match parse_level(level) {
                        Some(l) => out.spec.filters.push((Some(name.to_string()), l)),
                        None => {
                            out.malformed = true;
                            continue;
                        }
                    }
                }
            }
            _ => {
                out.malformed = true;
                continue;
            }
        }
    }
    if defaults > 1 {
        out.undefined = true;
    }
    let names = out.spec.names();
    if names.iter().any(String::is_empty) {
        out.undefined = true;
    }
    let mut sorted = names.clone();
    sorted.sort();
    sorted.dedup();
    if sorted.len() != names.len() {
        out.undefined = true;
    }
    if segs.len() == 2 {
        match regex::Regex::new(segs[1]) {
            Ok(_) => out.spec.regex = Some(segs[1].to_string()),
            Err(_) => out.malformed = true,
        }
    }
    out
}

// ---- strategies -------------------------------------------------------------------------------

pub fn module_name() -> BoxedStrategy<String> {
    let seg = prop_oneof![
        Just("a"), Just("ab"), Just("abc"), Just("b"), Just("info"), Just("warn"), Just("off"),
        Just("x1"), Just("_y"), Just("Error"),
    ];
    prop::collection::vec(seg, 1..4)
        .prop_map(|v| v.join("::"))
        .boxed()
}

pub fn regex_pool() -> BoxedStrategy<String> {
    prop_oneof![
        Just("^a".to_string()),
        Just("b$".to_string()),
        Just("\\d+".to_string()),
        Just("a|b".to_string()),
        Just("(?i)x".to_string()),
        Just("warn".to_string()),
    ]
    .boxed()
}

pub fn mspec_strat() -> BoxedStrategy<MSpec> {
    // names: the first is drawn freely, each further one either freely or as an extension of
    // an earlier one ("x::seg" or "xseg"), so that prefix-related names are common
    let seg = prop_oneof![Just("a"), Just("b"), Just("c1"), Just("info"), Just("_z")];
    (
        prop::collection::vec((module_name(), prop::option::weighted(0.55, (any::<prop::sample::Index>(), any::<bool>(), seg)), 0u8..6), 0..5),
        prop::option::weighted(0.6, 0u8..6),
        prop::option::weighted(0.3, regex_pool()),
        any::<prop::sample::Index>(),
    )
        .prop_map(|(mods, default, regex, pos)| {
            let mut filters: Vec<(Option<String>, u8)> = Vec::new();
            for (free, ext, level) in mods {
                let name = match ext {
                    Some((idx, colons, seg)) if !filters.is_empty() => {
                        let base = filters[idx.index(filters.len())].0.clone().unwrap_or_default();
                        if colons {
                            format!("{base}::{seg}")
                        } else {
                            format!("{base}{seg}")
                        }
                    }
                    _ => free,
                };
                if !filters.iter().any(|(n, _)| n.as_deref() == Some(name.as_str())) {
                    filters.push((Some(name), level));
                }
            }
            if let Some(d) = default {
                let at = pos.index(filters.len() + 1);
                filters.insert(at, (None, d));
            }
            MSpec { filters, regex }
        })
        .boxed()
}

/// targets derived from the names of the spec: exact, extended, sibling with common prefix,
/// strict prefix, plus unrelated and empty
pub fn grid_targets(names: &[String]) -> Vec<String> {
    let mut t = vec![String::new(), "zzz".to_string(), "a".to_string(), "info".to_string()];
    for n in names {
        t.push(n.clone());
        t.push(format!("{n}::x"));
        t.push(format!("{n}x"));
        if n.len() > 1 {
            let mut cut = n.len() - 1;
            while !n.is_char_boundary(cut) {
                cut -= 1;
            }
            t.push(n[..cut].to_string());
        }
    }
    t.sort();
    t.dedup();
    t
}

pub const MESSAGES: [&str; 8] = ["", "a", "b", "ab1", "x\ny", "X", "warn 7", "ünï b"];

// ---- recording writer -------------------------------------------------------------------------

#[derive(Clone, Debug, PartialEq, Eq)]
pub struct Got {
    pub level: u8,
    pub target: String,
    pub msg: String,
    pub ts_ns: i64,
}

#[derive(Default)]
pub struct Rec {
    pub handed: Mutex<Vec<Got>>,
    pub emitted: Mutex<Vec<Got>>,
    pub flushes: Mutex<u64>,
}

/// A custom LogWriter that records what it is handed, and "emits" what is at or below its
/// own declared ceiling (a well-behaved custom writer).
pub struct Recorder {
    pub rec: Arc<Rec>,
    pub ceiling: LevelFilter,
}
impl Recorder {
    pub fn new(ceiling: u8) -> (Recorder, Arc<Rec>) {
        let rec = Arc::new(Rec::default());
        (
            Recorder {
                rec: rec.clone(),
                ceiling: lf(ceiling),
            },
            rec,
        )
    }
}
impl LogWriter for Recorder {
    fn write(&self, now: &mut DeferredNow, record: &log::Record) -> std::io::Result<()> {
        let g = Got {
            level: lvl_num(record.level()),
            target: record.target().to_string(),
            msg: record.args().to_string(),
            ts_ns: now.now().timestamp_nanos_opt().unwrap_or(0),
        };
        self.rec.handed.lock().unwrap().push(g.clone());
        if record.level() <= self.ceiling {
            self.rec.emitted.lock().unwrap().push(g);
        }
        Ok(())
    }
    fn flush(&self) -> std::io::Result<()> {
        *self.rec.flushes.lock().unwrap() += 1;
        Ok(())
    }
    fn max_log_level(&self) -> LevelFilter {
        // a schedule point that belongs to the harness: flexi_logger asks every writer for its
        // level while it recomputes the global maximum, i.e. between taking over a specification
        // and setting the facade's max level (only acts in park mode, on controlled threads)
        if crate::hooks::h().mode.load(std::sync::atomic::Ordering::SeqCst) == crate::hooks::MODE_PARK {
            use flexi_logger::verif_hooks::Handler;
            let _ = crate::hooks::h().point("writer.max_log_level", None);
        }
        self.ceiling
    }
}

// ---- switchboard ------------------------------------------------------------------------------

static BOARD: RwLock<Option<Arc<dyn log::Log>>> = RwLock::new(None);

struct Switch;
impl log::Log for Switch {
    fn enabled(&self, m: &log::Metadata) -> bool {
        let g = BOARD.read().unwrap_or_else(|p| p.into_inner());
        g.as_ref().is_some_and(|l| l.enabled(m))
    }
    fn log(&self, r: &log::Record) {
        let l = {
            let g = BOARD.read().unwrap_or_else(|p| p.into_inner());
            g.clone()
        };
        if let Some(l) = l {
            l.log(r);
        }
    }
    fn flush(&self) {
        let g = BOARD.read().unwrap_or_else(|p| p.into_inner());
        if let Some(l) = g.as_ref() {
            l.flush();
        }
    }
}

/// installs the switchboard as the process's global logger (once)
pub fn install_switchboard() {
    let _ = log::set_boxed_logger(Box::new(Switch));
}

pub fn plug(l: Option<Arc<dyn log::Log>>) {
    let mut g = BOARD.write().unwrap_or_else(|p| p.into_inner());
    *g = l;
}

/// log through the real macro path (facade max-level gate included)
pub fn macro_log(level: log::Level, target: &str, msg: &str) {
    log::log!(target: target, level, "{}", msg);
}

// ---- spec strings: well-formed and malformed --------------------------------------------------

/// one malformed part / structure appended to a well-formed rendering
pub fn malformed_string() -> BoxedStrategy<String> {
    (
        mspec_strat(),
        prop_oneof![
            Just(",a=b=c"),
            Just(",a=info=warn"),
            Just(",a b"),
            Just(",a\tb=info"),
            Just(",a=verbose"),
            Just(",a=in fo"),
            Just(",x=1"),
            Just("/x/y"),
            Just("//"),
            Just("/("),
            Just("/[a"),
        ],
        any::<bool>(),
    )
        .prop_map(|(s, m, front)| {
            let mut base = s;
            if m.starts_with('/') {
                base.regex = None;
            }
            let r = base.render();
            if front && m.starts_with(',') {
                format!("{}{}{}", &m[1..], if r.is_empty() { "" } else { "," }, r)
            } else {
                format!("{r}{m}")
            }
        })
        .boxed()
}

/// a well-formed string with cosmetic variation (spaces, case, empty parts, `name=`)
pub fn wellformed_string() -> BoxedStrategy<(String, MSpec)> {
    (mspec_strat(), any::<u8>())
        .prop_map(|(s, style)| {
            let mut parts = Vec::new();
            let mut model = s.clone();
            for (i, (n, l)) in s.filters.iter().enumerate() {
                let word = LEVEL_WORDS[*l as usize];
                let word = match style % 3 {
                    0 => word.to_string(),
                    1 => word.to_uppercase(),
                    _ => {
                        let mut c = word.chars();
                        c.next().map(|f| f.to_uppercase().collect::<String>() + c.as_str()).unwrap_or_default()
                    }
                };
                match n {
                    None => parts.push(word),
                    Some(n) => {
                        if *l == 5 && style & 8 != 0 {
                            // "name" and "name=" both mean trace; a bare name that is a level
                            // word would be read as the default level, so keep '=' there
                            if parse_level_pub(n).is_some() || style & 16 != 0 {
                                parts.push(format!("{n}="));
                            } else {
                                parts.push(n.clone());
                            }
                        } else if style & 4 != 0 {
                            parts.push(format!(" {n} = {word} "));
                        } else {
                            parts.push(format!("{n}={word}"));
                        }
                    }
                }
                if style & 32 != 0 && i == 0 {
                    parts.push(" ".to_string());
                }
            }
            let mut text = parts.join(",");
            if let Some(r) = &s.regex {
                text.push('/');
                text.push_str(r);
            }
            model.regex = s.regex.clone();
            (text, model)
        })
        .boxed()
}

pub fn parse_level_pub(s: &str) -> Option<u8> {
    parse_level(s)
}
