//! Library part of the flv harness (shared with the fuzz targets in /verif/fuzz).
#![allow(dead_code)]
pub mod child;
pub mod fscn;
pub mod hist;
pub mod hooks;
pub mod kf;
pub mod model;
pub mod mr;
pub mod observe;
pub mod props;
pub mod runner;
pub mod spec;
pub mod util;
pub mod vtime;
