//! Reference partition model: predicts how the logged byte stream is split into files.
//!
//! Written from the documentation of Criterion / Naming / append, not from the implementation:
//!   * Size(N): rotate when a record is about to be written and the current file holds > N bytes
//!     (content found at start counts when appending)
//!   * Age(unit): rotate when a record is about to be written and the local clock shows a later
//!     unit than the one in which the current file was started
//!   * forced rotation closes the current file (only once the writer has opened its file)
//!   * start of a run: with append the run continues the current file; without append and with
//!     rotation the previous current file becomes a rotated file; without rotation and without
//!     append the file is truncated (documented)
use crate::fscn::{Crit, FileCfg};
use crate::vtime::period;

#[derive(Clone, Debug, PartialEq, Eq)]
pub struct Chunk {
    pub bytes: Vec<u8>,
    /// virtual instant at which the file holding this chunk was started (None: real clock)
    pub started_ns: Option<i64>,
    /// true if the rotation criterion closed it (not a forced rotation / restart)
    pub closed_by_criterion: bool,
    /// length of the last record appended
    pub last_len: usize,
    /// size when the last record was about to be written
    pub size_before_last: u64,
    pub run: usize,
}

#[derive(Clone, Debug)]
pub struct Model {
    pub cfg: FileCfg,
    /// oldest to newest; the last one is the current file if `has_current`
    pub chunks: Vec<Chunk>,
    pub has_current: bool,
    pub initialized: bool,
    pub run: usize,
    pub append: bool,
    /// bookkeeping for evidence / non-triviality
    pub rotations_by_size: u64,
    pub rotations_by_age: u64,
    pub rotations_forced: u64,
    pub writes_after_rotation: u64,
    pub exact_limit_hits: u64,
    pub over_limit_hits: u64,
    pub same_period_writes: u64,
    pub truncated_by_restart: bool,
}

impl Model {
    pub fn new(cfg: &FileCfg) -> Model {
        Model {
            cfg: cfg.clone(),
            chunks: Vec::new(),
            has_current: false,
            initialized: false,
            run: 0,
            append: false,
            rotations_by_size: 0,
            rotations_by_age: 0,
            rotations_forced: 0,
            writes_after_rotation: 0,
            exact_limit_hits: 0,
            over_limit_hits: 0,
            same_period_writes: 0,
            truncated_by_restart: false,
        }
    }

    pub fn start_run(&mut self, append: bool) {
        self.run += 1;
        self.append = append;
        self.initialized = false;
    }

    fn new_chunk(&mut self, now: Option<i64>) {
        self.chunks.push(Chunk {
            bytes: Vec::new(),
            started_ns: now,
            closed_by_criterion: false,
            last_len: 0,
            size_before_last: 0,
            run: self.run,
        });
        self.has_current = true;
    }

    fn initialize(&mut self, now: Option<i64>) {
        self.initialized = true;
        match (&self.cfg.rot, self.append) {
            (None, true) => {
                if !self.has_current {
                    self.new_chunk(now);
                }
            }
            (None, false) => {
                if self.has_current {
                    // documented truncation of a non-rotated file re-opened without append
                    let last = self.chunks.last_mut().unwrap();
                    if !last.bytes.is_empty() {
                        self.truncated_by_restart = true;
                    }
                    last.bytes.clear();
                    last.run = self.run;
                } else {
                    self.new_chunk(now);
                }
            }
            (Some(_), true) => {
                if !self.has_current {
                    self.new_chunk(now);
                }
            }
            (Some(_), false) => {
                // the previous current file (if any) is preserved as a rotated file
                self.new_chunk(now);
            }
        }
    }

    pub fn current_size(&self) -> u64 {
        self.chunks.last().map_or(0, |c| c.bytes.len() as u64)
    }

    /// a record of `line` (payload + line ending) is written at virtual time `now`
    pub fn write(&mut self, line: &[u8], now: Option<i64>) {
        self.before_write(now);
        if self.rotations() > 0 {
            self.writes_after_rotation += 1;
        }
        let cur = self.chunks.last_mut().unwrap();
        cur.size_before_last = cur.bytes.len() as u64;
        cur.last_len = line.len();
        cur.bytes.extend_from_slice(line);
    }

    /// a record is about to be written at `now`, but its write fails: the file is opened and the
    /// rotation decision is taken as for any record, no byte is added and none is accounted
    pub fn write_failed(&mut self, now: Option<i64>) {
        self.before_write(now);
    }

    fn before_write(&mut self, now: Option<i64>) {
        if !self.initialized {
            self.initialize(now);
        }
        if let Some(rot) = &self.cfg.rot {
            let crit = rot.crit;
            let cur = self.chunks.last().unwrap();
            let size = cur.bytes.len() as u64;
            let by_size = match crit {
                Crit::Size(n) | Crit::AgeOrSize(_, n) => {
                    if size == n {
                        self.exact_limit_hits += 1;
                    }
                    if size > n {
                        self.over_limit_hits += 1;
                    }
                    size > n
                }
                Crit::Age(_) => false,
            };
            let by_age = match (crit, cur.started_ns, now) {
                (Crit::Age(a) | Crit::AgeOrSize(a, _), Some(s), Some(n)) => {
                    let later = period(n, a) != period(s, a);
                    if !later {
                        self.same_period_writes += 1;
                    }
                    later
                }
                _ => false,
            };
            if by_size || by_age {
                if by_size {
                    self.rotations_by_size += 1;
                } else {
                    self.rotations_by_age += 1;
                }
                self.chunks.last_mut().unwrap().closed_by_criterion = true;
                self.new_chunk(now);
            }
        }
    }

    pub fn rotations(&self) -> u64 {
        self.rotations_by_age + self.rotations_by_size + self.rotations_forced
    }

    /// explicitly triggered rotation
    pub fn rotate(&mut self, now: Option<i64>) {
        if self.cfg.rot.is_some() && self.initialized {
            self.rotations_forced += 1;
            self.new_chunk(now);
        }
    }

    /// the current file was renamed out of the family by someone else and the writer reopened its
    /// output: the bytes written so far leave the family, a fresh file starts at `now`
    pub fn current_moved_away(&mut self, now: Option<i64>) {
        if self.has_current {
            if let Some(last) = self.chunks.last_mut() {
                last.bytes.clear();
                last.started_ns = now;
                last.size_before_last = 0;
                last.last_len = 0;
            }
        }
    }

    pub fn expected_stream(&self) -> Vec<u8> {
        let mut v = Vec::new();
        for c in &self.chunks {
            v.extend_from_slice(&c.bytes);
        }
        v
    }

    pub fn nonempty_chunks(&self) -> Vec<&Chunk> {
        self.chunks.iter().filter(|c| !c.bytes.is_empty()).collect()
    }
}
