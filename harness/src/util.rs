//! Small shared helpers: scratch directories, hashing, payloads, string interning.
use std::collections::HashMap;
use std::path::{Path, PathBuf};
use std::sync::atomic::{AtomicU64, Ordering};
use std::sync::Mutex;

/// FNV-1a 64 bit; stable across runs and platforms (no RandomState).
pub fn fnv(bytes: &[u8]) -> u64 {
    let mut h: u64 = 0xcbf2_9ce4_8422_2325;
    for b in bytes {
        h ^= u64::from(*b);
        h = h.wrapping_mul(0x0000_0100_0000_01b3);
    }
    h
}

pub fn mix(a: u64, b: u64) -> u64 {
    let mut x = a ^ b.wrapping_mul(0x9E37_79B9_7F4A_7C15);
    x ^= x >> 30;
    x = x.wrapping_mul(0xBF58_476D_1CE4_E5B9);
    x ^= x >> 27;
    x = x.wrapping_mul(0x94D0_49BB_1331_11EB);
    x ^ (x >> 31)
}

pub fn scratch_base() -> PathBuf {
    let shm = Path::new("/dev/shm");
    let base = if shm.is_dir() {
        shm.to_path_buf()
    } else {
        std::env::temp_dir()
    };
    base.join(format!("flv-{}", std::process::id()))
}

static DIR_CTR: AtomicU64 = AtomicU64::new(0);

/// A fresh, empty scratch directory (removed by `Scratch::drop`).
pub struct Scratch {
    pub path: PathBuf,
}
impl Scratch {
    pub fn new(tag: &str) -> Scratch {
        let n = DIR_CTR.fetch_add(1, Ordering::SeqCst);
        let path = scratch_base().join(format!("{tag}-{n}"));
        let _ = std::fs::remove_dir_all(&path);
        std::fs::create_dir_all(&path).expect("create scratch dir");
        Scratch { path }
    }
    pub fn sub(&self, name: &str) -> PathBuf {
        self.path.join(name)
    }
}
impl Drop for Scratch {
    fn drop(&mut self) {
        let _ = std::fs::remove_dir_all(&self.path);
    }
}

pub fn cleanup_scratch_base() {
    let _ = std::fs::remove_dir_all(scratch_base());
}

/// Deterministic payload for record `q` of source `t` with exactly `len` bytes (ASCII).
pub fn payload(t: u32, q: u32, len: usize) -> String {
    let prefix = format!("{t}:{q}:");
    let mut s = String::with_capacity(len);
    if len >= prefix.len() {
        s.push_str(&prefix);
    }
    let mut i = s.len();
    while i < len {
        let c = b'a' + ((q as usize * 7 + t as usize * 3 + i) % 26) as u8;
        s.push(c as char);
        i += 1;
    }
    s
}

/// Interns strings as `&'static str` (needed for `Naming::TimestampsCustomFormat`).
pub fn intern(s: &str) -> &'static str {
    static TABLE: Mutex<Option<HashMap<String, &'static str>>> = Mutex::new(None);
    let mut guard = TABLE.lock().unwrap_or_else(|p| p.into_inner());
    let map = guard.get_or_insert_with(HashMap::new);
    if let Some(v) = map.get(s) {
        return v;
    }
    let leaked: &'static str = Box::leak(s.to_string().into_boxed_str());
    map.insert(s.to_string(), leaked);
    leaked
}

pub fn lossy(b: &[u8]) -> String {
    let s = String::from_utf8_lossy(b);
    if s.len() > 400 {
        let mut cut = 400;
        while !s.is_char_boundary(cut) {
            cut -= 1;
        }
        format!("{}…(+{} bytes)", &s[..cut], s.len() - cut)
    } else {
        s.to_string()
    }
}

/// First index at which two byte strings differ, with context, for failure messages.
pub fn diff_msg(expected: &[u8], actual: &[u8]) -> String {
    let n = expected.len().min(actual.len());
    let mut i = 0;
    while i < n && expected[i] == actual[i] {
        i += 1;
    }
    let lo = i.saturating_sub(30);
    let ehi = (i + 50).min(expected.len());
    let ahi = (i + 50).min(actual.len());
    format!(
        "streams differ at byte {i} (expected len {}, actual len {}): expected …{:?}… actual …{:?}…",
        expected.len(),
        actual.len(),
        String::from_utf8_lossy(&expected[lo..ehi]),
        String::from_utf8_lossy(&actual[lo..ahi]),
    )
}

/// Error-channel text without the messages that only stem from running many loggers in one
/// process (the palette is process-global and can be initialised once).
pub fn filter_errchan(text: &str) -> String {
    let mut out = String::new();
    let mut skip_next = false;
    for line in text.lines() {
        if skip_next {
            skip_next = false;
            if line.trim_start().starts_with("See https://docs.rs/flexi_logger") {
                continue;
            }
        }
        if line.contains("[ERRCODE::Palette]") {
            skip_next = true;
            continue;
        }
        out.push_str(line);
        out.push('\n');
    }
    out
}
