//! Histories of file-logger operations and their interpreter (real logger + reference model).
use crate::fscn::{FileCfg, Sess};
use crate::hooks::h;
use crate::model::Model;
use crate::util::payload;
use crate::vtime::{VInst, MS};
use proptest::prelude::*;
use serde::{Deserialize, Serialize};
use std::path::Path;

#[derive(Clone, Debug, Serialize, Deserialize, PartialEq, Eq)]
pub enum Op {
    /// write a record whose payload has this many bytes
    Write(usize),
    Rotate,
    Flush,
    /// advance the virtual clock by this many milliseconds
    Advance(i64),
    /// a record (payload of this many bytes) whose own write is made to fail (injected I/O error
    /// at the hook point "write"): nothing of it reaches the file, the writer keeps running
    FailWrite(usize),
    /// the current file is renamed to a name outside the family by someone else, then
    /// reopen_output() is called (log rotation by an external tool): the writer continues in a
    /// fresh file at the original path
    MoveAwayAndReopen,
    /// like MoveAwayAndReopen, but the external tool also creates an empty file at the original
    /// path before reopen_output() is called (logrotate's `create` mode)
    MoveAwayRecreateAndReopen,
    /// reopen_output() without any external action (no flush before it): the file, its size and
    /// its start time stay what they are; records still buffered belong to it
    Reopen,
    /// reset_flw() with the configuration the writer has, with append (no flush before it): the
    /// writer continues in the same file, like a restart with append inside the process
    ResetSame,
}

/// record lengths biased to the boundaries that matter: the size limit `n` (line ending
/// included) and the buffer capacity `cap`
pub fn len_strat(n: Option<u64>, cap: Option<usize>, le: usize) -> BoxedStrategy<usize> {
    let mut opts: Vec<(u32, BoxedStrategy<usize>)> = vec![
        (2, Just(0usize).boxed()),
        (2, Just(1usize).boxed()),
        (4, (0usize..24).boxed()),
        (1, (24usize..200).boxed()),
    ];
    if let Some(n) = n {
        let n = n as usize;
        for d in [-2i64, -1, 0, 1, 2] {
            // payload length such that payload + line ending == n + d
            let t = n as i64 + d - le as i64;
            if t >= 0 {
                opts.push((2, Just(t as usize).boxed()));
            }
        }
        opts.push((1, Just(3 * n + 1).boxed()));
    }
    if let Some(c) = cap {
        if c <= 4096 {
            for d in [-1i64, 0, 1] {
                let t = c as i64 + d - le as i64;
                if t >= 0 {
                    opts.push((1, Just(t as usize).boxed()));
                }
            }
            opts.push((1, Just(5 * c).boxed()));
        }
    }
    proptest::strategy::Union::new_weighted(opts).boxed()
}

pub fn ops_strat(
    n: Option<u64>,
    cap: Option<usize>,
    le: usize,
    with_time: bool,
    max_ops: usize,
) -> BoxedStrategy<Vec<Op>> {
    ops_strat_f(n, cap, le, with_time, max_ops, false)
}

/// `with_failures`: the history may contain records whose own write fails (sync modes only)
pub fn ops_strat_f(
    n: Option<u64>,
    cap: Option<usize>,
    le: usize,
    with_time: bool,
    max_ops: usize,
    with_failures: bool,
) -> BoxedStrategy<Vec<Op>> {
    let mut opts: Vec<(u32, BoxedStrategy<Op>)> = vec![
        (10, len_strat(n, cap, le).prop_map(Op::Write).boxed()),
        (2, Just(Op::Rotate).boxed()),
        (1, Just(Op::Flush).boxed()),
    ];
    if with_failures {
        opts.push((1, len_strat(n, cap, le).prop_map(Op::FailWrite).boxed()));
        opts.push((1, Just(Op::MoveAwayAndReopen).boxed()));
        opts.push((1, Just(Op::MoveAwayRecreateAndReopen).boxed()));
        opts.push((1, Just(Op::Reopen).boxed()));
        opts.push((1, Just(Op::ResetSame).boxed()));
    }
    if with_time {
        opts.push((4, crate::vtime::advance_ms_strat().prop_map(Op::Advance).boxed()));
    }
    prop::collection::vec(proptest::strategy::Union::new_weighted(opts), 0..max_ops).boxed()
}

/// State of a history being executed against the real logger and the model.
pub struct Exec<'a> {
    pub cfg: &'a FileCfg,
    pub model: Model,
    pub seq: u32,
    pub src: u32,
    pub virt: bool,
    /// number of records whose write was made to fail
    pub failed_writes: u32,
    /// the hooks have counted every hit of the point "write" since the case began (fault mode):
    /// lets an async writer thread be waited for, so that a failing write can be placed exactly
    pub count_writes: bool,
    /// number of current files moved away externally
    pub moved: u32,
    /// the log directory (known to the engines that allow external manipulations inside a run)
    pub dir: Option<std::path::PathBuf>,
}

impl<'a> Exec<'a> {
    pub fn new(cfg: &'a FileCfg, t0: Option<VInst>) -> Exec<'a> {
        let virt = t0.is_some();
        if let Some(t) = t0 {
            h().set_time(Some(t.to_ns()));
        } else {
            h().set_time(None);
        }
        Exec {
            cfg,
            model: Model::new(cfg),
            seq: 0,
            src: 0,
            virt,
            failed_writes: 0,
            count_writes: false,
            moved: 0,
            dir: None,
        }
    }

    /// (async modes, `count_writes`) waits until the writer thread has handled every record sent
    fn drain(&self) -> Result<(), String> {
        let want = u64::from(self.seq);
        let t0 = std::time::Instant::now();
        loop {
            let got = h().points.lock().unwrap_or_else(|p| p.into_inner()).counts.get("write").copied().unwrap_or(0);
            if got >= want {
                return Ok(());
            }
            if t0.elapsed() > std::time::Duration::from_secs(5) {
                return Err(format!("the async writer thread handled {got} of {want} records within 5 s"));
            }
            std::thread::sleep(std::time::Duration::from_micros(200));
        }
    }

    pub fn now(&self) -> Option<i64> {
        if self.virt {
            h().time()
        } else {
            None
        }
    }

    pub fn apply(&mut self, sess: &Sess, op: &Op) -> Result<(), String> {
        match op {
            Op::Write(len) => {
                let p = payload(self.src, self.seq, *len);
                self.seq += 1;
                let mut line = p.clone().into_bytes();
                line.extend_from_slice(self.cfg.line_ending());
                let now = self.now();
                self.model.write(&line, now);
                sess.write(&p);
            }
            Op::FailWrite(len) => {
                if self.cfg.mode.is_async() && !self.count_writes {
                    // the writer thread cannot be synchronised with the fault window
                    return self.apply(sess, &Op::Write(*len));
                }
                if self.cfg.mode.is_async() {
                    self.drain()?;
                }
                let p = payload(self.src, self.seq, *len);
                self.seq += 1;
                let now = self.now();
                // the rotation decision precedes the write; the record itself leaves no bytes
                self.model.write_failed(now);
                let hh = h();
                let prev = hh.mode.load(std::sync::atomic::Ordering::SeqCst);
                {
                    let mut ps = hh.points.lock().unwrap_or_else(|p| p.into_inner());
                    let occ = ps.counts.get("write").copied().unwrap_or(0);
                    ps.faults.insert(("write".to_string(), occ), std::io::ErrorKind::Other);
                }
                hh.set_mode(crate::hooks::MODE_FAULT);
                sess.write(&p);
                if self.cfg.mode.is_async() {
                    self.drain()?;
                }
                hh.set_mode(prev);
                self.failed_writes += 1;
            }
            Op::MoveAwayAndReopen | Op::MoveAwayRecreateAndReopen => {
                // only once the writer has opened its file, only in sync modes (the writer
                // thread of an async mode may still hold queued records), and not for namings
                // that write directly to a numbered/timestamped file (their current file is found
                // through the listing)
                if !self.model.initialized || self.cfg.mode.is_async() || self.cfg.nam().is_some_and(|n| !n.rename_style()) {
                    return Ok(());
                }
                sess.flush();
                let Some(dir) = self.dir.clone() else {
                    return Ok(());
                };
                let snap = crate::observe::snapshot(&dir);
                let fam = crate::observe::family(self.cfg, &snap).map_err(|e| format!("family: {e}"))?;
                let Some(cur) = fam.iter().find(|f| matches!(f.parsed.kind, crate::observe::Kind::Current | crate::observe::Kind::Plain)) else {
                    return Ok(());
                };
                self.moved += 1;
                std::fs::rename(dir.join(&cur.name), dir.join(format!("moved-away-{}.bak", self.moved))).map_err(|e| format!("external rename: {e}"))?;
                if matches!(op, Op::MoveAwayRecreateAndReopen) {
                    let p = dir.join(&cur.name);
                    if std::fs::OpenOptions::new().write(true).create_new(true).open(&p).is_ok() {
                        if let Some(t) = h().time() {
                            h().register_birth(&p, t);
                        }
                    }
                }
                sess.reopen().map_err(|e| format!("reopen_output failed: {e}"))?;
                let now = self.now();
                self.model.current_moved_away(now);
            }
            Op::Reopen => {
                if self.model.initialized && !self.cfg.mode.is_async() {
                    sess.reopen().map_err(|e| format!("reopen_output failed: {e}"))?;
                }
            }
            Op::ResetSame => {
                // (with the start time in the name a new FileSpec is a new family)
                if self.model.initialized && !self.cfg.mode.is_async() && !self.cfg.start_ts {
                    if let Some(dir) = self.dir.clone() {
                        let mut target = self.cfg.clone();
                        // a Logger hands the write mode without its flush interval to its writer
                        if target.via_logger {
                            if let crate::fscn::Mode::BufAndFlush(c, _) = target.mode {
                                target.mode = crate::fscn::Mode::BufDontFlush(c);
                            }
                        }
                        let b = crate::fscn::flw_builder(&target, &dir, true, None);
                        sess.reset(&b).map_err(|e| format!("reset_flw failed: {e}"))?;
                        self.model.start_run(true);
                    }
                }
            }
            Op::Rotate => {
                let now = self.now();
                self.model.rotate(now);
                sess.rotate().map_err(|e| format!("trigger_rotation failed: {e}"))?;
            }
            Op::Flush => sess.flush(),
            Op::Advance(ms) => {
                if self.virt {
                    h().advance(*ms * MS);
                }
            }
        }
        Ok(())
    }
}

pub fn stray_entries(cfg: &FileCfg, snap: &[crate::observe::Entry]) -> Vec<String> {
    snap.iter()
        .filter(|e| crate::observe::classify(cfg, &e.name).is_none())
        .map(|e| e.name.clone())
        .collect()
}

pub fn dir_listing(dir: &Path) -> String {
    crate::observe::snapshot(dir)
        .iter()
        .map(|e| format!("{}({})", e.name, e.size))
        .collect::<Vec<_>>()
        .join(", ")
}
