//! Reader of /verif/known_findings.txt (read-only at run time).
//!
//! Line formats (anything else, and lines starting with '#', is ignored):
//!   open: property=<id> id=<KF-..> sig=<signature> :: <what fails>
//!   fixed: property=<id> <commit> <what failed>
//!
//! A failure is attributed to an open finding iff the property id matches and the failure's
//! signature string equals the listed signature. Fixed entries suppress nothing.
use std::path::PathBuf;

#[derive(Clone, Debug)]
pub struct Finding {
    pub property: String,
    pub id: String,
    pub sig: String,
    pub what: String,
}

pub fn verif_root() -> PathBuf {
    if let Ok(p) = std::env::var("FLV_VERIF_ROOT") {
        return PathBuf::from(p);
    }
    // the binary lives in <root>/harness/target/release/flv
    if let Ok(exe) = std::env::current_exe() {
        let mut p = exe.clone();
        for _ in 0..4 {
            p.pop();
        }
        if p.join("properties.jsonl").exists() {
            return p;
        }
    }
    PathBuf::from("/verif")
}

pub fn load_open() -> Vec<Finding> {
    let path = verif_root().join("known_findings.txt");
    let Ok(text) = std::fs::read_to_string(path) else {
        return Vec::new();
    };
    let mut out = Vec::new();
    for line in text.lines() {
        let line = line.trim();
        if let Some(rest) = line.strip_prefix("open:") {
            let (head, what) = match rest.split_once("::") {
                Some((h, w)) => (h.trim(), w.trim()),
                None => (rest.trim(), ""),
            };
            let mut property = String::new();
            let mut id = String::new();
            let mut sig = String::new();
            // sig may contain spaces: it extends to the end of head
            if let Some(pos) = head.find("sig=") {
                sig = head[pos + 4..].trim().to_string();
                for tok in head[..pos].split_whitespace() {
                    if let Some(v) = tok.strip_prefix("property=") {
                        property = v.to_string();
                    } else if let Some(v) = tok.strip_prefix("id=") {
                        id = v.to_string();
                    }
                }
            }
            if !property.is_empty() && !sig.is_empty() {
                out.push(Finding {
                    property,
                    id,
                    sig,
                    what: what.to_string(),
                });
            }
        }
    }
    out
}

pub fn match_open<'a>(findings: &'a [Finding], property: &str, sig: &str) -> Option<&'a Finding> {
    findings
        .iter()
        .find(|f| f.property == property && f.sig == sig)
}
