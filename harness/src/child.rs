//! Running a part of a case in a child process of the same binary (stdout/stderr capture,
//! process exit, kill).
use std::io::Read;
use std::path::Path;
use std::process::{Command, Stdio};
use std::time::{Duration, Instant};

pub struct ChildOut {
    pub code: Option<i32>,
    pub signal: Option<i32>,
    pub stdout: Vec<u8>,
    pub stderr: Vec<u8>,
    pub timed_out: bool,
}

/// `flv child <kind> <file>` with piped stdout/stderr
pub fn run_child(kind: &str, file: &Path, tz: &str, limit: Duration) -> ChildOut {
    use std::os::unix::process::ExitStatusExt;
    let exe = std::env::current_exe().expect("current_exe");
    let mut child = Command::new(exe)
        .arg("child")
        .arg(kind)
        .arg(file)
        .env("TZ", tz)
        .stdin(Stdio::null())
        .stdout(Stdio::piped())
        .stderr(Stdio::piped())
        .spawn()
        .expect("spawn child");
    let mut so = child.stdout.take().unwrap();
    let mut se = child.stderr.take().unwrap();
    let t1 = std::thread::spawn(move || {
        let mut v = Vec::new();
        let _ = so.read_to_end(&mut v);
        v
    });
    let t2 = std::thread::spawn(move || {
        let mut v = Vec::new();
        let _ = se.read_to_end(&mut v);
        v
    });
    let t0 = Instant::now();
    let mut timed_out = false;
    let status = loop {
        match child.try_wait() {
            Ok(Some(st)) => break Some(st),
            Ok(None) => {
                if t0.elapsed() > limit {
                    timed_out = true;
                    let _ = child.kill();
                    break child.wait().ok();
                }
                std::thread::sleep(Duration::from_micros(300));
            }
            Err(_) => break None,
        }
    };
    let stdout = t1.join().unwrap_or_default();
    let stderr = t2.join().unwrap_or_default();
    ChildOut {
        code: status.and_then(|s| s.code()),
        signal: status.and_then(|s| s.signal()),
        stdout,
        stderr,
        timed_out,
    }
}

pub fn write_case<T: serde::Serialize>(path: &Path, case: &T) {
    std::fs::write(path, serde_json::to_vec(case).unwrap()).expect("write child case");
}
pub fn read_case<T: serde::de::DeserializeOwned>(path: &Path) -> T {
    serde_json::from_slice(&std::fs::read(path).expect("read child case")).expect("parse child case")
}

pub fn exit_now(code: i32) -> ! {
    use std::io::Write;
    let _ = std::io::stdout().flush();
    let _ = std::io::stderr().flush();
    unsafe { libc::_exit(code) }
}
