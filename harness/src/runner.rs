//! proptest driver: process sharding, worker recycling, shrinking, replay, evidence.
use crate::kf;
use crate::util::{fnv, mix};
use proptest::strategy::{BoxedStrategy, Strategy};
use proptest::test_runner::{Config, RngSeed, TestCaseError, TestError, TestRunner};
use serde::de::DeserializeOwned;
use serde::{Deserialize, Serialize};
use std::cell::{Cell, RefCell};
use std::collections::{BTreeMap, BTreeSet};
use std::path::{Path, PathBuf};
use std::sync::Mutex;
use std::time::{Duration, Instant};

#[derive(Clone, Copy, Debug, PartialEq, Eq)]
pub enum Tier {
    Quick,
    Thorough,
}
impl Tier {
    pub fn parse(s: &str) -> Tier {
        if s == "thorough" {
            Tier::Thorough
        } else {
            Tier::Quick
        }
    }
    pub fn name(self) -> &'static str {
        match self {
            Tier::Quick => "quick",
            Tier::Thorough => "thorough",
        }
    }
}

#[derive(Clone, Debug, Serialize, Deserialize)]
pub struct Failure {
    /// stable signature used to attribute a failure to a listed known finding
    pub sig: String,
    pub msg: String,
}

#[derive(Clone, Debug, Default)]
pub struct Outcome {
    pub fail: Option<Failure>,
    pub nontrivial: bool,
    pub classes: Vec<String>,
    /// number of sub-evaluations this case stands for (e.g. kill points, grid cells); >= 1
    pub weight: u64,
    /// regions the case avoided / tolerated because of a listed finding (counted in evidence)
    pub avoided: Vec<String>,
}
impl Outcome {
    pub fn ok() -> Outcome {
        Outcome {
            weight: 1,
            ..Outcome::default()
        }
    }
    pub fn fail(sig: impl Into<String>, msg: impl Into<String>) -> Outcome {
        Outcome {
            fail: Some(Failure {
                sig: sig.into(),
                msg: msg.into(),
            }),
            weight: 1,
            ..Outcome::default()
        }
    }
    pub fn class(&mut self, c: &str) {
        if !self.classes.iter().any(|x| x == c) {
            self.classes.push(c.to_string());
        }
    }
    pub fn set_fail(&mut self, sig: impl Into<String>, msg: impl Into<String>) {
        if self.fail.is_none() {
            self.fail = Some(Failure {
                sig: sig.into(),
                msg: msg.into(),
            });
        }
    }
}

pub trait Property {
    type Case: Serialize + DeserializeOwned + std::fmt::Debug + Clone + 'static;
    const ID: &'static str;
    const LEVEL: &'static str;
    fn rule() -> String;
    fn assumptions() -> Vec<String> {
        Vec::new()
    }
    fn cases(tier: Tier) -> u64;
    fn chunk(_tier: Tier) -> u64 {
        250
    }
    fn strategy(tier: Tier) -> BoxedStrategy<Self::Case>;
    /// deterministic, enumerated cases that are always run in addition to the generated ones
    fn fixed_cases(_tier: Tier) -> Vec<Self::Case> {
        Vec::new()
    }
    fn fixed_exhaustive_note() -> Option<String> {
        None
    }
    fn run(case: &Self::Case) -> Outcome;
    fn worker_init() {}
    /// for properties whose verdict depends on the OS schedule: how often replay repeats a case
    fn replay_repeats() -> u32 {
        1
    }
    fn case_timeout() -> Duration {
        Duration::from_secs(30)
    }
    fn max_parallel() -> usize {
        16
    }
}

// ---------------------------------------------------------------------------------------------
// panic capture

pub static PANICS: Mutex<Vec<String>> = Mutex::new(Vec::new());

pub fn normalize_msg(m: &str) -> String {
    let mut out = String::new();
    let mut last_hash = false;
    for ch in m.chars().take(160) {
        if ch.is_ascii_digit() {
            if !last_hash {
                out.push('#');
            }
            last_hash = true;
        } else {
            out.push(if ch == '\n' { ' ' } else { ch });
            last_hash = false;
        }
    }
    // scratch paths vary
    let out = out.replace("/dev/shm/", "");
    out.chars().take(70).collect()
}

pub fn install_panic_hook() {
    std::panic::set_hook(Box::new(|info| {
        let loc = info
            .location()
            .map(|l| l.file().to_string())
            .unwrap_or_default();
        let file = match loc.rfind("src/") {
            Some(i) => loc[i..].to_string(),
            None => loc.clone(),
        };
        let origin = if loc.contains("/repo/") || loc.starts_with("src/") {
            "flexi_logger"
        } else if loc.contains("harness") {
            "harness"
        } else {
            "dep"
        };
        let msg = if let Some(s) = info.payload().downcast_ref::<&str>() {
            (*s).to_string()
        } else if let Some(s) = info.payload().downcast_ref::<String>() {
            s.clone()
        } else {
            "<non-string panic>".to_string()
        };
        let thread = std::thread::current()
            .name()
            .unwrap_or("<unnamed>")
            .to_string();
        let line = info.location().map(|l| l.line()).unwrap_or(0);
        let entry = format!(
            "panic@{origin}:{file}:{} [thread {thread}, line {line}] {}",
            normalize_msg(&msg),
            msg.chars().take(300).collect::<String>()
        );
        if let Ok(mut g) = PANICS.lock() {
            g.push(entry);
        }
    }));
}

/// in child processes: a panic is printed with a marker and ends the process with code 101
pub fn install_panic_hook_child() {
    std::panic::set_hook(Box::new(|info| {
        eprintln!("CHILD-PANIC {info}");
    }));
}

pub fn take_panics() -> Vec<String> {
    match PANICS.lock() {
        Ok(mut g) => std::mem::take(&mut *g),
        Err(p) => std::mem::take(&mut *p.into_inner()),
    }
}

/// signature part of a recorded panic entry ("panic@origin:file:normalized message")
pub fn panic_sig(entry: &str) -> String {
    match entry.find(" [thread ") {
        Some(i) => entry[..i].to_string(),
        None => entry.to_string(),
    }
}

/// Runs one case with panic capture; a panic (in this or any other thread) is a failure unless
/// the property consumed it itself with `take_panics`.
pub fn run_case<P: Property>(case: &P::Case) -> Outcome {
    let _ = std::panic::catch_unwind(crate::fscn::cleanse_thread_local_fast);
    let _ = take_panics();
    let r = std::panic::catch_unwind(std::panic::AssertUnwindSafe(|| P::run(case)));
    let panics = take_panics();
    crate::hooks::h().reset_all();
    if !panics.is_empty() || r.is_err() {
        let _ = std::panic::catch_unwind(crate::fscn::cleanse_thread_local);
        let _ = take_panics();
    }
    match r {
        Ok(mut o) => {
            if o.weight == 0 {
                o.weight = 1;
            }
            if o.fail.is_none() {
                if let Some(p) = panics.first() {
                    o.fail = Some(Failure {
                        sig: panic_sig(p),
                        msg: format!("panic during case: {}", panics.join(" | ")),
                    });
                }
            }
            o
        }
        Err(_) => {
            let p = panics
                .first()
                .cloned()
                .unwrap_or_else(|| "panic@unknown".to_string());
            let mut o = Outcome::fail(panic_sig(&p), format!("panic: {}", panics.join(" | ")));
            o.weight = 1;
            o
        }
    }
}

// ---------------------------------------------------------------------------------------------
// worker

#[derive(Serialize, Deserialize, Default, Debug)]
pub struct WorkerResult {
    pub evaluations: u64,
    pub weighted: u64,
    pub nontrivial: Vec<u64>,
    pub classes: BTreeMap<String, u64>,
    pub excluded: BTreeMap<String, u64>,
    pub avoided: BTreeMap<String, u64>,
    pub samples: Vec<serde_json::Value>,
    pub violation: Option<Violation>,
    pub hang: Option<serde_json::Value>,
    pub wall_s: f64,
}
#[derive(Serialize, Deserialize, Debug, Clone)]
pub struct Violation {
    pub replay: String,
    pub sig: String,
    pub msg: String,
    #[serde(default)]
    pub alt_replay: Option<String>,
}

static CURRENT: Mutex<Option<(Instant, String)>> = Mutex::new(None);

fn start_watchdog(limit: Duration, outfile: PathBuf) {
    std::thread::Builder::new()
        .name("flv-watchdog".into())
        .spawn(move || loop {
            std::thread::sleep(Duration::from_millis(200));
            let hung = {
                let g = CURRENT.lock().unwrap_or_else(|p| p.into_inner());
                match &*g {
                    Some((t, js)) if t.elapsed() > limit => Some(js.clone()),
                    _ => None,
                }
            };
            if let Some(js) = hung {
                let res = WorkerResult {
                    hang: Some(serde_json::from_str(&js).unwrap_or(serde_json::Value::Null)),
                    ..WorkerResult::default()
                };
                let _ = std::fs::write(&outfile, serde_json::to_vec(&res).unwrap());
                crate::util::cleanup_scratch_base();
                unsafe { libc::_exit(3) };
            }
        })
        .expect("spawn watchdog");
}

pub fn process_init<P: Property>() {
    install_panic_hook();
    crate::hooks::install();
    P::worker_init();
}

fn replay_dir(id: &str) -> PathBuf {
    let d = kf::verif_root().join("replays").join(id);
    let _ = std::fs::create_dir_all(&d);
    d
}

pub fn worker<P: Property>(tier: Tier, seed: u64, chunk_idx: &str, ncases: u64, outfile: &Path) -> i32 {
    let t0 = Instant::now();
    process_init::<P>();
    start_watchdog(P::case_timeout(), outfile.to_path_buf());
    let findings = kf::load_open();

    let res = RefCell::new(WorkerResult::default());
    let nontrivial = RefCell::new(BTreeSet::<u64>::new());
    let failed = Cell::new(false);
    let sample_keys = RefCell::new(BTreeSet::<String>::new());
    let last_fail = RefCell::new(None::<Failure>);
    let first_fail = RefCell::new(None::<(String, Failure)>);

    let body = |case: &P::Case| -> Result<(), TestCaseError> {
        let js = serde_json::to_string(case).unwrap();
        {
            let mut g = CURRENT.lock().unwrap_or_else(|p| p.into_inner());
            *g = Some((Instant::now(), js.clone()));
        }
        let o = run_case::<P>(case);
        {
            let mut g = CURRENT.lock().unwrap_or_else(|p| p.into_inner());
            *g = None;
        }
        let counting = !failed.get();
        let mut known = false;
        if let Some(f) = &o.fail {
            if let Some(k) = kf::match_open(&findings, P::ID, &f.sig) {
                known = true;
                if counting {
                    *res.borrow_mut().excluded.entry(k.id.clone()).or_insert(0) += 1;
                }
            }
        }
        if counting && (o.fail.is_none() || known) {
            let mut r = res.borrow_mut();
            r.evaluations += 1;
            r.weighted += o.weight;
            for c in &o.classes {
                *r.classes.entry(c.clone()).or_insert(0) += 1;
            }
            for a in &o.avoided {
                *r.avoided.entry(a.clone()).or_insert(0) += 1;
            }
            if o.nontrivial && !known {
                nontrivial.borrow_mut().insert(fnv(js.as_bytes()));
            }
            let mut cl = o.classes.clone();
            cl.sort();
            let key = format!("{}|{}", o.nontrivial, cl.join(","));
            if r.samples.len() < 4 && o.nontrivial && sample_keys.borrow_mut().insert(key) {
                r.samples.push(serde_json::json!({
                    "case": serde_json::from_str::<serde_json::Value>(&js).unwrap(),
                    "classes": o.classes,
                    "nontrivial": o.nontrivial,
                }));
            }
        }
        match o.fail {
            Some(f) if !known => {
                if !failed.get() {
                    *first_fail.borrow_mut() = Some((js.clone(), f.clone()));
                }
                failed.set(true);
                let m = format!("{} :: {}", f.sig, f.msg);
                *last_fail.borrow_mut() = Some(f);
                Err(TestCaseError::fail(m))
            }
            _ => Ok(()),
        }
    };

    let mut violation = None;
    if chunk_idx == "fixed" {
        for case in P::fixed_cases(tier) {
            if let Err(e) = body(&case) {
                let f = last_fail.borrow().clone().unwrap();
                violation = Some(save_violation::<P>(&case, &f, &format!("{e}")));
                break;
            }
        }
    } else {
        let idx: u64 = chunk_idx.parse().unwrap_or(0);
        let s = mix(mix(seed, fnv(P::ID.as_bytes())), idx);
        let config = Config {
            cases: ncases as u32,
            failure_persistence: None,
            rng_seed: RngSeed::Fixed(s),
            max_shrink_iters: 400,
            max_shrink_time: 90_000,
            max_global_rejects: 100_000,
            verbose: 0,
            ..Config::default()
        };
        let mut runner = TestRunner::new(config);
        let strat = P::strategy(tier);
        match runner.run(&strat, |case| body(&case)) {
            Ok(()) => {}
            Err(TestError::Fail(reason, case)) => {
                // re-run the minimal case to get its own signature/message
                let o = run_case::<P>(&case);
                let f = o.fail.unwrap_or_else(|| {
                    last_fail.borrow().clone().unwrap_or(Failure {
                        sig: "unstable".into(),
                        msg: format!("minimal case did not fail again; proptest reason: {reason}"),
                    })
                });
                // a shrunk case may have wandered into a listed finding: then report the
                // original failure's signature instead of hiding it
                let mut v = save_violation::<P>(&case, &f, &format!("{reason}"));
                // keep the original (unshrunk) failing case too: the driver verifies both in
                // fresh processes and reports the one that reproduces
                if let Some((js, f0)) = first_fail.borrow().clone() {
                    if let Ok(c0) = serde_json::from_str::<P::Case>(&js) {
                        let v0 = save_violation::<P>(&c0, &f0, "original failing case");
                        v.alt_replay = Some(v0.replay);
                    }
                }
                violation = Some(v);
            }
            Err(TestError::Abort(reason)) => {
                violation = Some(Violation {
                    replay: String::new(),
                    sig: "generator-abort".into(),
                    msg: format!("proptest aborted: {reason}"),
                    alt_replay: None,
                });
            }
        }
    }
    {
        let mut g = CURRENT.lock().unwrap_or_else(|p| p.into_inner());
        *g = None;
    }
    let mut r = res.into_inner();
    r.nontrivial = nontrivial.into_inner().into_iter().collect();
    r.violation = violation;
    r.wall_s = t0.elapsed().as_secs_f64();
    std::fs::write(outfile, serde_json::to_vec(&r).unwrap()).expect("write worker result");
    crate::util::cleanup_scratch_base();
    // flexi_logger's flusher threads never terminate: leave without waiting for them
    unsafe { libc::_exit(0) }
}

fn save_violation<P: Property>(case: &P::Case, f: &Failure, reason: &str) -> Violation {
    let js = serde_json::to_string_pretty(&serde_json::json!({
        "property": P::ID,
        "sig": f.sig,
        "msg": f.msg,
        "case": case,
    }))
    .unwrap();
    let name = format!("{:016x}.json", fnv(serde_json::to_string(case).unwrap().as_bytes()));
    let path = replay_dir(P::ID).join(name);
    let _ = std::fs::write(&path, js);
    Violation {
        replay: path.to_string_lossy().to_string(),
        sig: f.sig.clone(),
        msg: format!("{} ({})", f.msg, reason.chars().take(200).collect::<String>()),
        alt_replay: None,
    }
}

// ---------------------------------------------------------------------------------------------
// replay

pub fn load_case<P: Property>(file: &Path) -> Result<P::Case, String> {
    let text = std::fs::read_to_string(file).map_err(|e| format!("{e}"))?;
    let v: serde_json::Value = serde_json::from_str(&text).map_err(|e| format!("{e}"))?;
    let c = if v.get("case").is_some() && v.get("property").is_some() {
        v.get("case").unwrap().clone()
    } else {
        v
    };
    serde_json::from_value(c).map_err(|e| format!("{e}"))
}

/// Runs one saved case without proptest. Prints `REPLAY result=pass|fail sig=<sig> :: <msg>`.
pub fn replay<P: Property>(file: &Path) -> i32 {
    process_init::<P>();
    let case = match load_case::<P>(file) {
        Ok(c) => c,
        Err(e) => {
            println!("REPLAY result=error :: cannot load {}: {e}", file.display());
            return 2;
        }
    };
    let out = std::env::temp_dir().join(format!("flv-replay-{}.json", std::process::id()));
    start_watchdog(P::case_timeout() * 2, out.clone());
    let mut code = 0;
    let repeats = if std::env::var("FLV_REPLAY_ONCE").is_ok() { 1 } else { P::replay_repeats() };
    for _ in 0..repeats {
        {
            let mut g = CURRENT.lock().unwrap_or_else(|p| p.into_inner());
            *g = Some((Instant::now(), "{}".into()));
        }
        let o = run_case::<P>(&case);
        {
            let mut g = CURRENT.lock().unwrap_or_else(|p| p.into_inner());
            *g = None;
        }
        if let Some(f) = o.fail {
            println!("REPLAY result=fail sig={} :: {}", f.sig, f.msg);
            code = 1;
            break;
        }
    }
    if code == 0 {
        println!("REPLAY result=pass sig=- :: held");
    }
    let _ = std::fs::remove_file(out);
    crate::util::cleanup_scratch_base();
    use std::io::Write;
    let _ = std::io::stdout().flush();
    unsafe { libc::_exit(code) }
}

// ---------------------------------------------------------------------------------------------
// driver

fn run_with_timeout(cmd: &mut std::process::Command, limit: Duration) -> (Option<i32>, String) {
    use std::io::Read;
    let mut child = cmd
        .stdout(std::process::Stdio::piped())
        .stderr(std::process::Stdio::null())
        .spawn()
        .expect("spawn");
    let t0 = Instant::now();
    loop {
        match child.try_wait() {
            Ok(Some(st)) => {
                let mut s = String::new();
                if let Some(mut o) = child.stdout.take() {
                    let _ = o.read_to_string(&mut s);
                }
                return (st.code(), s);
            }
            Ok(None) => {
                if t0.elapsed() > limit {
                    let _ = child.kill();
                    let _ = child.wait();
                    return (None, String::new());
                }
                std::thread::sleep(Duration::from_millis(20));
            }
            Err(_) => return (None, String::new()),
        }
    }
}

pub struct ReplayVerdict {
    pub failed: bool,
    pub timed_out: bool,
    pub sig: String,
    pub msg: String,
}

pub fn replay_subprocess(id: &str, file: &Path, limit: Duration) -> ReplayVerdict {
    replay_subprocess_opt(id, file, limit, false)
}

/// `once`: run the case a single time (hang verification), whatever the property's repeat count
pub fn replay_subprocess_opt(id: &str, file: &Path, limit: Duration, once: bool) -> ReplayVerdict {
    let exe = std::env::current_exe().expect("current_exe");
    let mut cmd = std::process::Command::new(exe);
    cmd.arg("replay").arg(id).arg(file);
    if once {
        cmd.env("FLV_REPLAY_ONCE", "1");
    }
    let (code, out) = run_with_timeout(&mut cmd, limit);
    let mut v = ReplayVerdict {
        failed: false,
        timed_out: code.is_none(),
        sig: String::new(),
        msg: String::new(),
    };
    for line in out.lines() {
        if let Some(rest) = line.strip_prefix("REPLAY result=") {
            v.failed = rest.starts_with("fail");
            if let Some(p) = rest.find("sig=") {
                let tail = &rest[p + 4..];
                let (sig, msg) = tail.split_once(" :: ").unwrap_or((tail, ""));
                v.sig = sig.to_string();
                v.msg = msg.to_string();
            }
        }
    }
    if code == Some(3) {
        v.timed_out = true;
    }
    if !v.timed_out && !v.failed && code != Some(0) {
        // abnormal exit of the replay process (abort, signal): treat as failure of the case
        v.failed = true;
        v.sig = format!("abnormal-exit:{code:?}");
        v.msg = "replay process ended abnormally".into();
    }
    v
}

pub fn check<P: Property>(tier: Tier, seed: u64) -> i32 {
    let t0 = Instant::now();
    let root = kf::verif_root();
    let findings: Vec<kf::Finding> = kf::load_open()
        .into_iter()
        .filter(|f| f.property == P::ID)
        .collect();
    let mut violations: Vec<Violation> = Vec::new();
    let mut known_hit: BTreeMap<String, u64> = BTreeMap::new();
    let mut inconclusive: Vec<String> = Vec::new();
    let mut regress_run = 0u64;

    // 1. replay tier: reproducers of every confirmed finding (fixed or open)
    let rdir = root.join("regress").join(P::ID);
    let mut files: Vec<PathBuf> = std::fs::read_dir(&rdir)
        .map(|rd| {
            rd.flatten()
                .map(|e| e.path())
                .filter(|p| p.extension().is_some_and(|e| e == "json"))
                .collect()
        })
        .unwrap_or_default();
    files.sort();
    for f in &files {
        regress_run += 1;
        let v = replay_subprocess(P::ID, f, P::case_timeout() * 4);
        if v.timed_out {
            // a hang is a failure with its own signature
            let sig = "hang".to_string();
            if let Some(k) = kf::match_open(&findings, P::ID, &sig) {
                *known_hit.entry(k.id.clone()).or_insert(0) += 1;
            } else {
                violations.push(Violation {
                    replay: f.to_string_lossy().to_string(),
                    sig,
                    msg: "regression case timed out".into(),
                    alt_replay: None,
                });
            }
        } else if v.failed {
            if let Some(k) = kf::match_open(&findings, P::ID, &v.sig) {
                *known_hit.entry(k.id.clone()).or_insert(0) += 1;
            } else {
                violations.push(Violation {
                    replay: f.to_string_lossy().to_string(),
                    sig: v.sig,
                    msg: v.msg,
                    alt_replay: None,
                });
            }
        }
    }

    // 2. generated cases, sharded over worker processes
    let total = P::cases(tier);
    let chunk = P::chunk(tier).max(1);
    let mut jobs: Vec<(String, u64)> = Vec::new();
    if !P::fixed_cases(tier).is_empty() {
        jobs.push(("fixed".to_string(), 0));
    }
    let mut left = total;
    let mut idx = 0u64;
    while left > 0 {
        let n = left.min(chunk);
        jobs.push((idx.to_string(), n));
        left -= n;
        idx += 1;
    }
    let exe = std::env::current_exe().expect("current_exe");
    let outdir = std::env::temp_dir().join(format!("flv-drv-{}", std::process::id()));
    let _ = std::fs::remove_dir_all(&outdir);
    std::fs::create_dir_all(&outdir).unwrap();
    let par = P::max_parallel()
        .min(std::thread::available_parallelism().map_or(8, usize::from))
        .max(1);
    let mut running: Vec<(std::process::Child, PathBuf, String, Instant)> = Vec::new();
    let mut results: Vec<WorkerResult> = Vec::new();
    let mut next = 0usize;
    let per_chunk_limit = P::case_timeout() * 3 + Duration::from_secs(1200);
    let mut stop_spawning = false;
    while next < jobs.len() || !running.is_empty() {
        while !stop_spawning && running.len() < par && next < jobs.len() {
            let (ci, n) = &jobs[next];
            let out = outdir.join(format!("w{next}.json"));
            let child = std::process::Command::new(&exe)
                .arg("worker")
                .arg(P::ID)
                .arg(tier.name())
                .arg(seed.to_string())
                .arg(ci)
                .arg(n.to_string())
                .arg(&out)
                .stdout(std::process::Stdio::null())
                .stderr(std::process::Stdio::null())
                .spawn()
                .expect("spawn worker");
            running.push((child, out, ci.clone(), Instant::now()));
            next += 1;
        }
        if stop_spawning {
            // a violation is confirmed: do not wait for the other workers
            for r in running.iter_mut() {
                let _ = r.0.kill();
                let _ = r.0.wait();
            }
            running.clear();
            break;
        }
        let mut i = 0;
        let mut progressed = false;
        while i < running.len() {
            let done = match running[i].0.try_wait() {
                Ok(Some(st)) => Some(st.code()),
                Ok(None) => {
                    if running[i].3.elapsed() > per_chunk_limit {
                        let _ = running[i].0.kill();
                        let _ = running[i].0.wait();
                        Some(None)
                    } else {
                        None
                    }
                }
                Err(_) => Some(None),
            };
            if let Some(code) = done {
                progressed = true;
                let (_c, out, ci, _t) = running.swap_remove(i);
                match std::fs::read(&out)
                    .ok()
                    .and_then(|b| serde_json::from_slice::<WorkerResult>(&b).ok())
                {
                    Some(r) => {
                        if r.hang.is_some() && stop_spawning {
                            // a violation is already confirmed: no need to verify more hangs
                            results.push(r);
                            continue;
                        }
                        if let Some(hcase) = &r.hang {
                            // re-run twice in isolation: reproducible => hang (a failure)
                            let f = replay_dir(P::ID).join(format!(
                                "hang-{:016x}.json",
                                fnv(hcase.to_string().as_bytes())
                            ));
                            let _ = std::fs::write(
                                &f,
                                serde_json::to_string_pretty(&serde_json::json!({
                                    "property": P::ID, "sig": "hang", "msg": "watchdog", "case": hcase
                                }))
                                .unwrap(),
                            );
                            // a single execution each, with twice the worker's limit: a case
                            // that is merely slow on a loaded machine is no hang
                            let a = replay_subprocess_opt(P::ID, &f, P::case_timeout() * 2, true);
                            let b = if a.timed_out { replay_subprocess_opt(P::ID, &f, P::case_timeout() * 2, true) } else { ReplayVerdict { failed: false, timed_out: false, sig: String::new(), msg: String::new() } };
                            if a.timed_out && b.timed_out {
                                if let Some(k) = kf::match_open(&findings, P::ID, "hang") {
                                    *known_hit.entry(k.id.clone()).or_insert(0) += 1;
                                } else {
                                    violations.push(Violation {
                                        replay: f.to_string_lossy().to_string(),
                                        sig: "hang".into(),
                                        msg: "case exceeds the watchdog limit reproducibly".into(),
                                        alt_replay: None,
                                    });
                                    stop_spawning = true;
                                }
                            } else if a.failed || b.failed {
                                let v = if a.failed { a } else { b };
                                violations.push(Violation {
                                    replay: f.to_string_lossy().to_string(),
                                    sig: v.sig,
                                    msg: v.msg,
                                    alt_replay: None,
                                });
                                stop_spawning = true;
                            } else {
                                inconclusive.push(format!("chunk {ci}: watchdog hit, not reproducible"));
                            }
                        }
                        if r.violation.is_some() {
                            stop_spawning = true;
                        }
                        results.push(r);
                    }
                    None => {
                        inconclusive.push(format!(
                            "chunk {ci}: worker ended without result (exit {code:?})"
                        ));
                    }
                }
            } else {
                i += 1;
            }
        }
        if !progressed {
            std::thread::sleep(Duration::from_millis(15));
        }
    }
    let _ = std::fs::remove_dir_all(&outdir);

    // 3. aggregate
    let mut evaluations = 0u64;
    let mut weighted = 0u64;
    let mut nontrivial = BTreeSet::<u64>::new();
    let mut classes = BTreeMap::<String, u64>::new();
    let mut excluded = BTreeMap::<String, u64>::new();
    let mut avoided = BTreeMap::<String, u64>::new();
    let mut samples = Vec::new();
    for r in &results {
        evaluations += r.evaluations;
        weighted += r.weighted;
        nontrivial.extend(r.nontrivial.iter().copied());
        for (k, v) in &r.classes {
            *classes.entry(k.clone()).or_insert(0) += v;
        }
        for (k, v) in &r.excluded {
            *excluded.entry(k.clone()).or_insert(0) += v;
            *known_hit.entry(k.clone()).or_insert(0) += v;
        }
        for (k, v) in &r.avoided {
            *avoided.entry(k.clone()).or_insert(0) += v;
        }
        for s in &r.samples {
            if samples.len() < 6 {
                samples.push(s.clone());
            }
        }
        if let Some(v) = &r.violation {
            // verify in a fresh process: a failure must not depend on what ran before it in
            // the worker. Prefer the shrunk case, fall back to the original failing case.
            let mut confirmed = None;
            let mut cands = Vec::new();
            if !v.replay.is_empty() {
                cands.push(v.replay.clone());
            }
            if let Some(a) = &v.alt_replay {
                cands.push(a.clone());
            }
            if cands.is_empty() {
                confirmed = Some(v.clone());
            }
            for c in cands {
                let mut hit = None;
                for _ in 0..2 {
                    let rv = replay_subprocess(P::ID, Path::new(&c), P::case_timeout() * 4);
                    if rv.timed_out {
                        hit = Some(("hang".to_string(), "replay exceeds the watchdog limit".to_string()));
                        break;
                    }
                    if rv.failed {
                        hit = Some((rv.sig, rv.msg));
                        break;
                    }
                }
                if let Some((sig, msg)) = hit {
                    confirmed = Some(Violation {
                        replay: c,
                        sig,
                        msg,
                        alt_replay: None,
                    });
                    break;
                }
            }
            match confirmed {
                Some(cv) => {
                    if let Some(k) = kf::match_open(&findings, P::ID, &cv.sig) {
                        *known_hit.entry(k.id.clone()).or_insert(0) += 1;
                        *excluded.entry(k.id.clone()).or_insert(0) += 1;
                    } else {
                        violations.push(cv);
                    }
                }
                None => inconclusive.push(format!(
                    "failure '{}' did not reproduce in a fresh process (replay {})",
                    v.sig, v.replay
                )),
            }
        }
    }
    if samples.is_empty() {
        samples.push(serde_json::json!("no non-trivial case was produced in this run"));
    }
    let wall = t0.elapsed().as_secs_f64();
    let evidence = serde_json::json!({
        "property_id": P::ID,
        "tier": tier.name(),
        "seed": seed,
        "level": P::LEVEL,
        "coverage": {
            "evaluations": evaluations,
            "sub_evaluations": weighted,
            "distinct_nontrivial": nontrivial.len(),
            "rule": P::rule(),
            "classes": classes,
            "excluded_known": excluded,
            "avoided_by_construction": avoided,
            "regression_cases_replayed": regress_run,
            "samples": samples,
            "exhaustive_part": P::fixed_exhaustive_note(),
            "inconclusive": inconclusive,
        },
        "assumptions": P::assumptions(),
        "wall_s": wall,
        "violations": violations.len(),
    });
    let edir = root.join("evidence");
    let _ = std::fs::create_dir_all(&edir);
    let _ = std::fs::write(
        edir.join(format!("{}.json", P::ID)),
        serde_json::to_string_pretty(&evidence).unwrap(),
    );

    for f in &findings {
        if known_hit.get(&f.id).copied().unwrap_or(0) > 0 {
            println!("KNOWN-FINDING: property={} {} [{}] (hit {}x)", P::ID, f.what, f.id, known_hit[&f.id]);
        }
    }
    println!(
        "{} {}: evaluations={} sub={} distinct_nontrivial={} violations={} inconclusive={} wall={:.1}s",
        P::ID,
        tier.name(),
        evaluations,
        weighted,
        nontrivial.len(),
        violations.len(),
        inconclusive.len(),
        wall
    );
    let mut top: Vec<_> = classes.iter().collect();
    top.sort_by(|a, b| b.1.cmp(a.1));
    println!(
        "  classes: {}",
        top.iter()
            .map(|(k, v)| format!("{k}={v}"))
            .collect::<Vec<_>>()
            .join(" ")
    );
    if !violations.is_empty() {
        let mut seen = BTreeSet::new();
        for v in &violations {
            if seen.insert(v.sig.clone()) {
                println!("VIOLATION property={} replay={}", P::ID, v.replay);
                println!("  sig={} :: {}", v.sig, v.msg.chars().take(600).collect::<String>());
            }
        }
        return 1;
    }
    if !inconclusive.is_empty() {
        for i in &inconclusive {
            println!("INCONCLUSIVE: {i}");
        }
        return 2;
    }
    0
}

// ---------------------------------------------------------------------------------------------
// coverage-guided stage: one libFuzzer iteration = one case of the property's own strategy,
// generated from the fuzzer's bytes through proptest's pass-through RNG (a local change of the
// bytes is a local change of the generated case), judged by the property's own oracle.

pub struct FuzzStats {
    pub executions: std::sync::atomic::AtomicU64,
    pub nontrivial: Mutex<BTreeSet<u64>>,
    pub samples: Mutex<Vec<String>>,
}
pub static FUZZ_STATS: FuzzStats = FuzzStats {
    executions: std::sync::atomic::AtomicU64::new(0),
    nontrivial: Mutex::new(BTreeSet::new()),
    samples: Mutex::new(Vec::new()),
};
extern "C" fn fuzz_atexit() {
    fuzz_report();
    crate::util::cleanup_scratch_base();
}

/// Called by the fuzz target for every input. A failure that is not a listed open finding
/// is written as an ordinary JSON replay file (replays/<ID>/fuzz-*.json), announced on stderr as
/// "FUZZ-FAILURE property=<ID> replay=<path> sig=<sig>", and turned into a panic so that libFuzzer
/// stops and keeps the bytes; the driver script then verifies the JSON replay in a fresh process.
pub fn fuzz_one<P: Property>(data: &[u8]) {
    use proptest::strategy::ValueTree;
    use proptest::test_runner::{RngAlgorithm, TestRng};
    thread_local! {
        static FINDINGS: RefCell<Option<Vec<kf::Finding>>> = const { RefCell::new(None) };
    }
    static INIT: std::sync::Once = std::sync::Once::new();
    INIT.call_once(|| {
        if let Ok(tz) = std::env::var("FLV_FUZZ_TZ") {
            crate::vtime::apply_tz(&tz);
        }
        std::env::set_var("FLV_TIER", "quick");
        process_init::<P>();
        unsafe { libc::atexit(fuzz_atexit) };
    });
    // (proptest's own pass-through stream yields zeros once exhausted, on which rand's rejection
    // sampling never terminates, and every flat_map halves what is left: /verif/fuzz builds with a
    // patched copy, fuzz/vendor/proptest, whose exhausted stream continues pseudo-randomly)
    let rng = TestRng::from_seed(RngAlgorithm::PassThrough, data);
    let config = Config {
        failure_persistence: None,
        ..Config::default()
    };
    let mut runner = TestRunner::new_with_rng(config, rng);
    // building a strategy (regex compilation) costs far more than drawing from it: built once
    thread_local! {
        static STRAT: RefCell<Option<Box<dyn std::any::Any>>> = const { RefCell::new(None) };
    }
    let tree = STRAT.with(|st| {
        let mut st = st.borrow_mut();
        let b = st.get_or_insert_with(|| Box::new(P::strategy(Tier::Quick)) as Box<dyn std::any::Any>);
        let strat = b.downcast_ref::<BoxedStrategy<P::Case>>().expect("one property per process");
        strat.new_tree(&mut runner)
    });
    let Ok(tree) = tree else {
        return;
    };
    let case = tree.current();
    let o = run_case::<P>(&case);
    FUZZ_STATS.executions.fetch_add(1, std::sync::atomic::Ordering::Relaxed);
    let known = FINDINGS.with(|f| {
        let mut f = f.borrow_mut();
        let list = f.get_or_insert_with(kf::load_open);
        o.fail.as_ref().is_some_and(|x| kf::match_open(list, P::ID, &x.sig).is_some())
    });
    if o.nontrivial && !known {
        let js = serde_json::to_string(&case).unwrap();
        let fresh = FUZZ_STATS.nontrivial.lock().unwrap_or_else(|p| p.into_inner()).insert(fnv(js.as_bytes()));
        let mut sm = FUZZ_STATS.samples.lock().unwrap_or_else(|p| p.into_inner());
        if fresh && sm.len() < 3 && data.len() >= 8 {
            sm.push(js);
        }
    }
    if let Some(f) = o.fail {
        if !known {
            // shrink with the value tree the bytes produced (the oracle decides, as in the worker)
            let is_new_failure = |o: &Outcome| -> Option<Failure> {
                let f = o.fail.clone()?;
                let listed = FINDINGS.with(|l| l.borrow().as_ref().is_some_and(|l| kf::match_open(l, P::ID, &f.sig).is_some()));
                (!listed).then_some(f)
            };
            let mut tree = tree;
            let mut best = (case.clone(), f.clone());
            let mut iters = 0;
            if tree.simplify() {
                loop {
                    iters += 1;
                    if iters > 300 {
                        break;
                    }
                    let c = tree.current();
                    let o2 = run_case::<P>(&c);
                    if let Some(f2) = is_new_failure(&o2) {
                        best = (c, f2);
                        if !tree.simplify() {
                            break;
                        }
                    } else if !tree.complicate() {
                        break;
                    }
                }
            }
            let rename = |v: &mut Violation, tag: &str| {
                let p = PathBuf::from(&v.replay);
                let renamed = p.with_file_name(format!("fuzz-{tag}{}", p.file_name().unwrap().to_string_lossy()));
                if std::fs::rename(&p, &renamed).is_ok() {
                    v.replay = renamed.to_string_lossy().to_string();
                }
            };
            let mut v0 = save_violation::<P>(&case, &f, "found by the coverage-guided stage (case as generated)");
            rename(&mut v0, "orig-");
            let mut v = save_violation::<P>(&best.0, &best.1, "found by the coverage-guided stage (shrunk)");
            rename(&mut v, "");
            eprintln!("FUZZ-FAILURE property={} replay={} alt={} sig={}", P::ID, v.replay, v0.replay, v.sig);
            fuzz_report();
            crate::util::cleanup_scratch_base();
            std::process::abort();
        }
    }
}

/// one line of statistics for the driver ("FUZZ-STATS executions=.. distinct_nontrivial=..")
pub fn fuzz_report() {
    eprintln!(
        "FUZZ-STATS executions={} distinct_nontrivial={}",
        FUZZ_STATS.executions.load(std::sync::atomic::Ordering::Relaxed),
        FUZZ_STATS.nontrivial.lock().unwrap_or_else(|p| p.into_inner()).len()
    );
    for s in FUZZ_STATS.samples.lock().unwrap_or_else(|p| p.into_inner()).iter() {
        eprintln!("FUZZ-SAMPLE {s}");
    }
    // the driver runs a job as several short-lived processes (flexi_logger's flusher threads never
    // end) and counts distinct non-trivial cases over all of them from these hashes
    if let Ok(f) = std::env::var("FLV_FUZZ_NT_FILE") {
        use std::io::Write;
        if let Ok(mut fh) = std::fs::OpenOptions::new().create(true).append(true).open(f) {
            let mut out = String::new();
            for h in FUZZ_STATS.nontrivial.lock().unwrap_or_else(|p| p.into_inner()).iter() {
                out.push_str(&format!("{h:016x}\n"));
            }
            let _ = fh.write_all(out.as_bytes());
        }
    }
}
