//! File scenario language: configuration types, proptest strategies, and the interpreter that
//! drives the real flexi_logger (through `Logger::build` or a bare `FileLogWriter`).
use crate::util::intern;
use flexi_logger::writers::{FileLogWriter, FileLogWriterBuilder, LogWriter};
use flexi_logger::{
    Age, Cleanup, Criterion, DeferredNow, ErrorChannel, FileSpec, LogSpecification, Logger,
    LoggerHandle, LogfileSelector, Naming, WriteMode,
};
use proptest::prelude::*;
use serde::{Deserialize, Serialize};
use std::path::{Path, PathBuf};
use std::time::Duration;

#[derive(Clone, Debug, Serialize, Deserialize, PartialEq, Eq)]
pub enum Nam {
    Numbers,
    NumbersDirect,
    Timestamps,
    TimestampsDirect,
    Custom { current: Option<String>, fmt: String },
}
impl Nam {
    /// flexi_logger's `writes_direct` for the cleanup listing (None or Some("") count as direct)
    pub fn direct(&self) -> bool {
        match self {
            Nam::NumbersDirect | Nam::TimestampsDirect => true,
            Nam::Custom { current, .. } => current.as_deref().is_none_or(str::is_empty),
            _ => false,
        }
    }
    /// rotation renames the current file (it has a static infix, possibly the empty one)
    pub fn rename_style(&self) -> bool {
        self.current_token().is_some()
    }
    /// resolution of the timestamp infix
    pub fn resolution(&self) -> Option<AgeU> {
        let f = self.ts_format()?;
        Some(if f.contains("%S") {
            AgeU::Second
        } else if f.contains("%M") {
            AgeU::Minute
        } else if f.contains("%H") {
            AgeU::Hour
        } else {
            AgeU::Day
        })
    }
    pub fn is_ts(&self) -> bool {
        !matches!(self, Nam::Numbers | Nam::NumbersDirect)
    }
    /// strftime format of the rotated-file infix, for timestamp namings
    pub fn ts_format(&self) -> Option<String> {
        match self {
            Nam::Timestamps | Nam::TimestampsDirect => Some("r%Y-%m-%d_%H-%M-%S".to_string()),
            Nam::Custom { fmt, .. } => Some(fmt.clone()),
            _ => None,
        }
    }
    pub fn current_token(&self) -> Option<String> {
        match self {
            Nam::Numbers | Nam::Timestamps => Some("rCURRENT".to_string()),
            Nam::Custom { current: Some(c), .. } => Some(c.clone()),
            _ => None,
        }
    }
    pub fn to_flexi(&self) -> Naming {
        match self {
            Nam::Numbers => Naming::Numbers,
            Nam::NumbersDirect => Naming::NumbersDirect,
            Nam::Timestamps => Naming::Timestamps,
            Nam::TimestampsDirect => Naming::TimestampsDirect,
            Nam::Custom { current, fmt } => Naming::TimestampsCustomFormat {
                current_infix: current.as_deref().map(intern),
                format: intern(fmt),
            },
        }
    }
    pub fn label(&self) -> &'static str {
        match self {
            Nam::Numbers => "nam:Numbers",
            Nam::NumbersDirect => "nam:NumbersDirect",
            Nam::Timestamps => "nam:Timestamps",
            Nam::TimestampsDirect => "nam:TimestampsDirect",
            Nam::Custom { current, .. } => {
                match current.as_deref() {
                    None => "nam:CustomDirect",
                    Some("") => "nam:CustomEmptyToken",
                    Some(_) => "nam:CustomToken",
                }
            }
        }
    }
}

#[derive(Clone, Copy, Debug, Serialize, Deserialize, PartialEq, Eq, PartialOrd, Ord)]
pub enum AgeU {
    Second,
    Minute,
    Hour,
    Day,
}
impl AgeU {
    pub fn to_flexi(self) -> Age {
        match self {
            AgeU::Second => Age::Second,
            AgeU::Minute => Age::Minute,
            AgeU::Hour => Age::Hour,
            AgeU::Day => Age::Day,
        }
    }
}

#[derive(Clone, Copy, Debug, Serialize, Deserialize, PartialEq, Eq)]
pub enum Crit {
    Size(u64),
    Age(AgeU),
    AgeOrSize(AgeU, u64),
}
impl Crit {
    pub fn to_flexi(self) -> Criterion {
        match self {
            Crit::Size(n) => Criterion::Size(n),
            Crit::Age(a) => Criterion::Age(a.to_flexi()),
            Crit::AgeOrSize(a, n) => Criterion::AgeOrSize(a.to_flexi(), n),
        }
    }
    pub fn size(self) -> Option<u64> {
        match self {
            Crit::Size(n) | Crit::AgeOrSize(_, n) => Some(n),
            Crit::Age(_) => None,
        }
    }
    pub fn age(self) -> Option<AgeU> {
        match self {
            Crit::Age(a) | Crit::AgeOrSize(a, _) => Some(a),
            Crit::Size(_) => None,
        }
    }
}

#[derive(Clone, Copy, Debug, Serialize, Deserialize, PartialEq, Eq)]
pub enum Cln {
    Never,
    Keep(usize),
    KeepGz(usize),
    KeepBoth(usize, usize),
}
impl Cln {
    pub fn to_flexi(self) -> Cleanup {
        match self {
            Cln::Never => Cleanup::Never,
            Cln::Keep(k) => Cleanup::KeepLogFiles(k),
            Cln::KeepGz(m) => Cleanup::KeepCompressedFiles(m),
            Cln::KeepBoth(k, m) => Cleanup::KeepLogAndCompressedFiles(k, m),
        }
    }
    /// (plain limit, gz limit)
    pub fn limits(self) -> Option<(usize, usize)> {
        match self {
            Cln::Never => None,
            Cln::Keep(k) => Some((k, 0)),
            Cln::KeepGz(m) => Some((0, m)),
            Cln::KeepBoth(k, m) => Some((k, m)),
        }
    }
}

#[derive(Clone, Copy, Debug, Serialize, Deserialize, PartialEq, Eq)]
pub enum Mode {
    Direct,
    SupportCapture,
    BufDontFlush(usize),
    BufAndFlush(usize, u64),
    Async { pool: usize, msg: usize, flush_ms: u64 },
}
impl Mode {
    pub fn to_flexi(self) -> WriteMode {
        match self {
            Mode::Direct => WriteMode::Direct,
            Mode::SupportCapture => WriteMode::SupportCapture,
            Mode::BufDontFlush(c) => WriteMode::BufferDontFlushWith(c),
            Mode::BufAndFlush(c, ms) => WriteMode::BufferAndFlushWith(c, Duration::from_millis(ms)),
            Mode::Async { pool, msg, flush_ms } => WriteMode::AsyncWith {
                pool_capa: pool,
                message_capa: msg,
                flush_interval: Duration::from_millis(flush_ms),
            },
        }
    }
    pub fn is_async(self) -> bool {
        matches!(self, Mode::Async { .. })
    }
    pub fn buffer_cap(self) -> Option<usize> {
        match self {
            Mode::BufDontFlush(c) | Mode::BufAndFlush(c, _) => Some(c),
            _ => None,
        }
    }
    pub fn label(self) -> &'static str {
        match self {
            Mode::Direct => "mode:Direct",
            Mode::SupportCapture => "mode:SupportCapture",
            Mode::BufDontFlush(_) => "mode:BufDontFlush",
            Mode::BufAndFlush(..) => "mode:BufAndFlush",
            Mode::Async { .. } => "mode:Async",
        }
    }
}

#[derive(Clone, Debug, Serialize, Deserialize, PartialEq, Eq)]
pub struct Rot {
    pub crit: Crit,
    pub nam: Nam,
    pub cln: Cln,
}

#[derive(Clone, Debug, Serialize, Deserialize, PartialEq, Eq)]
pub struct FileCfg {
    /// None: basename suppressed (empty)
    pub basename: Option<String>,
    pub discr: Option<String>,
    pub suffix: Option<String>,
    pub start_ts: bool,
    pub rot: Option<Rot>,
    pub mode: Mode,
    pub crlf: bool,
    pub utc: bool,
    pub symlink: bool,
    pub bg_cleanup: bool,
    pub via_logger: bool,
    /// how the builder is driven (same documented meaning, different call sequence):
    /// 0 = explicit use_timestamp(..), log_to_file before rotate;
    /// 1 = the FileSpec is left without an explicit timestamp decision where the documented default
    ///     (start time without rotation, none with rotation) equals `start_ts`;
    /// 2 = like 1, and Logger::rotate() is called before log_to_file()
    #[serde(default)]
    pub build_variant: u8,
}
impl FileCfg {
    pub fn line_ending(&self) -> &'static [u8] {
        if self.crlf {
            b"\r\n"
        } else {
            b"\n"
        }
    }
    pub fn nam(&self) -> Option<&Nam> {
        self.rot.as_ref().map(|r| &r.nam)
    }
    pub fn file_spec(&self, dir: &Path) -> FileSpec {
        let fs = FileSpec::default()
            .directory(dir)
            .basename(self.basename.clone().unwrap_or_default())
            .o_discriminant(self.discr.clone())
            .o_suffix(self.suffix.clone());
        if self.build_variant > 0 && self.start_ts == self.rot.is_none() {
            fs
        } else {
            fs.use_timestamp(self.start_ts)
        }
    }
    /// [basename][_discriminant], the part of the name that does not depend on time
    pub fn static_prefix(&self) -> String {
        let mut s = self.basename.clone().unwrap_or_default();
        if let Some(d) = &self.discr {
            if !s.is_empty() {
                s.push('_');
            }
            s.push_str(d);
        }
        s
    }
    pub fn plain() -> FileCfg {
        FileCfg {
            basename: Some("app".into()),
            discr: None,
            suffix: Some("log".into()),
            start_ts: false,
            rot: None,
            mode: Mode::Direct,
            crlf: false,
            utc: false,
            symlink: false,
            bg_cleanup: false,
            via_logger: false,
            build_variant: 0,
        }
    }
}

/// format function used by the file scenarios: the message verbatim
pub fn raw_format(
    w: &mut dyn std::io::Write,
    _now: &mut DeferredNow,
    record: &log::Record,
) -> Result<(), std::io::Error> {
    write!(w, "{}", record.args())
}

pub fn flw_builder(cfg: &FileCfg, dir: &Path, append: bool, link: Option<&Path>) -> FileLogWriterBuilder {
    let mut b = FileLogWriter::builder(cfg.file_spec(dir))
        .format(raw_format)
        .write_mode(cfg.mode.to_flexi())
        .o_append(append)
        .cleanup_in_background_thread(cfg.bg_cleanup);
    if let Some(r) = &cfg.rot {
        b = b.rotate(r.crit.to_flexi(), r.nam.to_flexi(), r.cln.to_flexi());
    }
    if cfg.crlf {
        b = b.use_windows_line_ending();
    }
    if cfg.utc {
        b = b.use_utc();
    }
    if let Some(l) = link {
        b = b.create_symlink(l);
    }
    b
}

pub enum Sess {
    Logger {
        log: Box<dyn log::Log>,
        handle: LoggerHandle,
    },
    Flw(FileLogWriter),
}

impl Sess {
    pub fn start(
        cfg: &FileCfg,
        dir: &Path,
        append: bool,
        errfile: Option<&Path>,
        link: Option<&Path>,
    ) -> Result<Sess, String> {
        match errfile {
            Some(p) => flexi_logger::verif_hooks::set_error_channel(ErrorChannel::File(p.to_path_buf())),
            None => flexi_logger::verif_hooks::set_error_channel(ErrorChannel::DevNull),
        }
        if cfg.via_logger && !cfg.utc {
            let mut l = Logger::with(LogSpecification::trace());
            let rotate_first = cfg.build_variant == 2;
            if let (true, Some(r)) = (rotate_first, &cfg.rot) {
                l = l.rotate(r.crit.to_flexi(), r.nam.to_flexi(), r.cln.to_flexi());
            }
            let mut l = l
                .log_to_file(cfg.file_spec(dir))
                .format_for_files(raw_format)
                .write_mode(cfg.mode.to_flexi())
                .o_append(append)
                .cleanup_in_background_thread(cfg.bg_cleanup)
                .panic_if_error_channel_is_broken(false)
                .error_channel(match errfile {
                    Some(p) => ErrorChannel::File(p.to_path_buf()),
                    None => ErrorChannel::DevNull,
                });
            if let (false, Some(r)) = (rotate_first, &cfg.rot) {
                l = l.rotate(r.crit.to_flexi(), r.nam.to_flexi(), r.cln.to_flexi());
            }
            if cfg.crlf {
                l = l.use_windows_line_ending();
            }
            if let Some(lk) = link {
                l = l.create_symlink(lk);
            }
            let (log, handle) = l.build().map_err(|e| format!("build failed: {e:?}"))?;
            Ok(Sess::Logger { log, handle })
        } else {
            let w = flw_builder(cfg, dir, append, link)
                .try_build()
                .map_err(|e| format!("try_build failed: {e:?}"))?;
            Ok(Sess::Flw(w))
        }
    }

    pub fn write(&self, text: &str) {
        self.write_rec(text, log::Level::Info, "flv");
    }

    pub fn write_rec(&self, text: &str, level: log::Level, target: &str) {
        match self {
            Sess::Logger { log, .. } => log.log(
                &log::Record::builder()
                    .args(format_args!("{text}"))
                    .level(level)
                    .target(target)
                    .module_path(Some("flv"))
                    .build(),
            ),
            Sess::Flw(w) => {
                let mut now = DeferredNow::new();
                let _ = LogWriter::write(
                    w,
                    &mut now,
                    &log::Record::builder()
                        .args(format_args!("{text}"))
                        .level(level)
                        .target(target)
                        .module_path(Some("flv"))
                        .build(),
                );
            }
        }
    }

    pub fn rotate(&self) -> Result<(), String> {
        match self {
            Sess::Logger { handle, .. } => handle.trigger_rotation().map_err(|e| format!("{e:?}")),
            Sess::Flw(w) => w.rotate().map_err(|e| format!("{e:?}")),
        }
    }

    pub fn flush(&self) {
        match self {
            Sess::Logger { handle, .. } => handle.flush(),
            Sess::Flw(w) => {
                let _ = LogWriter::flush(w);
            }
        }
    }

    pub fn reopen(&self) -> Result<(), String> {
        match self {
            Sess::Logger { handle, .. } => handle.reopen_output().map_err(|e| format!("{e:?}")),
            Sess::Flw(w) => w.reopen_outputfile().map_err(|e| format!("{e:?}")),
        }
    }

    pub fn reset(&self, b: &FileLogWriterBuilder) -> Result<(), String> {
        match self {
            Sess::Logger { handle, .. } => handle.reset_flw(b).map_err(|e| format!("{e:?}")),
            Sess::Flw(w) => w.reset(b).map_err(|e| format!("{e:?}")),
        }
    }

    pub fn existing(&self, sel: &LogfileSelector) -> Result<Vec<PathBuf>, String> {
        match self {
            Sess::Logger { handle, .. } => handle.existing_log_files(sel).map_err(|e| format!("{e:?}")),
            Sess::Flw(w) => w.existing_log_files(sel).map_err(|e| format!("{e:?}")),
        }
    }

    /// orderly stop: shutdown() and drop
    pub fn shutdown(self) {
        match self {
            Sess::Logger { log, handle } => {
                handle.shutdown();
                drop(handle);
                drop(log);
            }
            Sess::Flw(w) => {
                LogWriter::shutdown(&w);
                drop(w);
            }
        }
    }

    /// stop by dropping only (the handle's / writer's Drop must do the work)
    pub fn drop_only(self) {
        match self {
            Sess::Logger { log, handle } => {
                drop(handle);
                drop(log);
            }
            Sess::Flw(w) => drop(w),
        }
    }
}

// ---------------------------------------------------------------------------------------------
// strategies

pub fn name_part() -> BoxedStrategy<String> {
    prop_oneof![
        6 => "[a-z]{1,6}",
        2 => "[A-Za-z0-9-]{1,8}",
        1 => Just("a_r1".to_string()),
        1 => Just("x_rb".to_string()),
        1 => Just("r123".to_string()),
        1 => Just("é".to_string()),
        1 => Just("日本".to_string()),
        1 => Just("a-b_c".to_string()),
        1 => Just("my.app".to_string()),
    ]
    .boxed()
}

pub fn suffix_strat() -> BoxedStrategy<Option<String>> {
    prop_oneof![
        5 => Just(Some("log".to_string())),
        2 => Just(None),
        1 => Just(Some("txt".to_string())),
        1 => Just(Some("trc".to_string())),
        1 => Just(Some("l".to_string())),
        1 => Just(Some("log.txt".to_string())),
        1 => Just(Some("log_raw".to_string())),
        1 => Just(Some("gz".to_string())),
    ]
    .boxed()
}

/// custom timestamp formats: valid chrono specifiers, always a full date, optional time parts
pub fn custom_fmt() -> BoxedStrategy<String> {
    let date = prop_oneof![
        Just("%Y-%m-%d".to_string()),
        Just("%Y%m%d".to_string()),
        Just("%Y_%m_%d".to_string()),
        Just("%d-%m-%Y".to_string()),
    ];
    let time = prop_oneof![
        3 => Just("_%H-%M-%S".to_string()),
        2 => Just("-%H%M%S".to_string()),
        1 => Just("_%H-%M".to_string()),
        1 => Just("_%H".to_string()),
        1 => Just("_%H.%M.%S".to_string()),
        1 => Just(String::new()),
    ];
    let prefix = prop_oneof![
        3 => Just("r".to_string()),
        1 => Just(String::new()),
        1 => Just("ts-".to_string()),
        1 => Just("rotated-at-".to_string()),
    ];
    (prefix, date, time)
        .prop_map(|(p, d, t)| format!("{p}{d}{t}"))
        .boxed()
}

pub fn naming_strat() -> BoxedStrategy<Nam> {
    prop_oneof![
        3 => Just(Nam::Numbers),
        3 => Just(Nam::NumbersDirect),
        3 => Just(Nam::Timestamps),
        3 => Just(Nam::TimestampsDirect),
        2 => (prop_oneof![Just("rCURRENT".to_string()), Just("cur".to_string()), Just("active".to_string())], custom_fmt())
            .prop_map(|(c, fmt)| Nam::Custom { current: Some(c), fmt }),
        1 => custom_fmt().prop_map(|fmt| Nam::Custom { current: Some(String::new()), fmt }),
        2 => custom_fmt().prop_map(|fmt| Nam::Custom { current: None, fmt }),
    ]
    .boxed()
}

pub fn age_strat() -> BoxedStrategy<AgeU> {
    prop_oneof![
        Just(AgeU::Second),
        Just(AgeU::Minute),
        Just(AgeU::Hour),
        Just(AgeU::Day)
    ]
    .boxed()
}

pub fn sync_mode_strat() -> BoxedStrategy<Mode> {
    prop_oneof![
        4 => Just(Mode::Direct),
        1 => Just(Mode::SupportCapture),
        3 => (1usize..64).prop_map(Mode::BufDontFlush),
        1 => Just(Mode::BufDontFlush(8192)),
        1 => (1usize..64, prop_oneof![Just(1u64), Just(5u64), Just(60_000u64)]).prop_map(|(c, ms)| Mode::BufAndFlush(c, ms)),
    ]
    .boxed()
}

pub fn async_mode_strat() -> BoxedStrategy<Mode> {
    (1usize..5, prop_oneof![1usize..20, Just(64usize), Just(200usize)], prop_oneof![Just(0u64), Just(1u64), Just(60_000u64)])
        .prop_map(|(pool, msg, flush_ms)| Mode::Async { pool, msg, flush_ms })
        .boxed()
}

/// name parts: (basename, discriminant) with at least one of them present if `need_fixed`
pub fn name_parts(need_fixed: bool) -> BoxedStrategy<(Option<String>, Option<String>)> {
    (
        prop::option::weighted(0.8, name_part()),
        prop::option::weighted(0.3, name_part()),
    )
        .prop_map(move |(b, d)| {
            if need_fixed && b.is_none() && d.is_none() {
                (Some("app".to_string()), None)
            } else {
                (b, d)
            }
        })
        .boxed()
}

pub fn crit_strat() -> BoxedStrategy<Crit> {
    let n = prop_oneof![4 => 0u64..80, 1 => Just(0u64), 1 => Just(1u64), 1 => 80u64..400];
    prop_oneof![
        5 => n.clone().prop_map(Crit::Size),
        3 => age_strat().prop_map(Crit::Age),
        2 => (age_strat(), n).prop_map(|(a, n)| Crit::AgeOrSize(a, n)),
    ]
    .boxed()
}

/// Documented precondition of `TimestampsCustomFormat` with `current_infix` None or Some(""):
/// "make sure to rotate only by age, and choose an age that is not smaller than what is
/// expressed in the infix". The generator meets it by construction.
pub fn fix_crit(crit: Crit, nam: &Nam) -> Crit {
    if let Nam::Custom { current, .. } = nam {
        if current.as_deref().is_none_or(str::is_empty) {
            let res = nam.resolution().unwrap_or(AgeU::Second);
            let a = crit.age().unwrap_or(AgeU::Day);
            return Crit::Age(a.max(res));
        }
    }
    crit
}

pub fn rot_pair_strat() -> BoxedStrategy<(Crit, Nam)> {
    (crit_strat(), naming_strat())
        .prop_map(|(c, n)| (fix_crit(c, &n), n))
        .boxed()
}

/// After a panic inside a log call, flexi_logger's thread-local format buffer of this thread
/// may still hold the interrupted line (it is cleared only after a completed write). One
/// completed write through a throw-away writer clears it, so that the next case starts clean.
pub fn cleanse_thread_local() {
    let sc = crate::util::Scratch::new("cleanse");
    if let Ok(w) = FileLogWriter::builder(FileSpec::default().directory(&sc.path).basename("c").suppress_timestamp())
        .format(raw_format)
        .try_build()
    {
        let mut now = DeferredNow::new();
        let _ = LogWriter::write(
            &w,
            &mut now,
            &log::Record::builder().args(format_args!("x")).level(log::Level::Error).build(),
        );
        LogWriter::shutdown(&w);
    }
}

/// The same through a long-lived throw-away writer of this thread: cheap enough to run before
/// every case, so that a case never starts with a line that an earlier case left in the
/// thread-local format buffer (which would make its verdict irreproducible in a fresh process).
pub fn cleanse_thread_local_fast() {
    thread_local! {
        static CLEANSER: std::cell::OnceCell<Option<FileLogWriter>> = const { std::cell::OnceCell::new() };
    }
    CLEANSER.with(|c| {
        let w = c.get_or_init(|| {
            let dir = crate::util::scratch_base().join(format!("cleanser-{:?}", std::thread::current().id()).replace(['(', ')'], "_"));
            FileLogWriter::builder(FileSpec::default().directory(dir).basename("c").suppress_timestamp()).format(raw_format).try_build().ok()
        });
        if let Some(w) = w {
            let mut now = DeferredNow::new();
            let _ = LogWriter::write(w, &mut now, &log::Record::builder().args(format_args!("x")).level(log::Level::Error).build());
        }
    });
}
