//! Multi-run engine: several runs of a logger on one directory, with optional manipulations of
//! the directory between runs, and observation points after every operation and every run.
use crate::fscn::*;
use crate::hist::*;
use crate::hooks::h;
use crate::model::Model;
use crate::observe::{classify, snapshot, Entry, Kind};
use crate::vtime::{VInst, MS};
use proptest::prelude::*;
use serde::{Deserialize, Serialize};
use std::path::Path;

#[derive(Clone, Debug, Serialize, Deserialize, PartialEq, Eq)]
pub enum Manip {
    /// gzip every rotated plain file (what KeepCompressedFiles leaves behind)
    GzipRotated,
    RemoveCurrent,
    /// remove the i-th oldest rotated file (gap in the numbering)
    RemoveRotated(usize),
    /// number namings: renumber the rotated files (order kept) so that the highest index becomes
    /// 99998 - the following rotations cross the padded width (r99999 -> r100000)
    ShiftNumbersHigh,
}

#[derive(Clone, Debug, Serialize, Deserialize)]
pub struct MrRun {
    pub append: bool,
    pub gap_ms: i64,
    pub manips: Vec<Manip>,
    pub ops: Vec<Op>,
}

#[derive(Clone, Debug, Serialize, Deserialize)]
pub struct MrCase {
    pub tz: String,
    pub cfg: FileCfg,
    pub t0: VInst,
    pub runs: Vec<MrRun>,
}

pub enum Event<'a> {
    /// before a run starts (after the manipulations)
    RunStart { run: usize, snap: &'a [Entry] },
    /// right after the logger of a run has been built (nothing written yet)
    Started { run: usize, sess: &'a Sess },
    /// after an operation of a run (only delivered if `observe_ops`)
    AfterOp { run: usize, op: &'a Op, snap: &'a [Entry], model: &'a Model, sess: &'a Sess },
    /// after the run has been shut down; `lines` = bytes logged in this run
    RunEnd { run: usize, snap: &'a [Entry], model: &'a Model, lines: &'a [u8], wrote: bool },
}

pub fn gzip_bytes(b: &[u8]) -> Vec<u8> {
    use std::io::Write;
    let mut e = flate2::write::GzEncoder::new(Vec::new(), flate2::Compression::fast());
    let _ = e.write_all(b);
    e.finish().unwrap_or_default()
}

pub fn apply_manip(cfg: &FileCfg, dir: &Path, m: &Manip) {
    let snap = snapshot(dir);
    let fam = crate::observe::family(cfg, &snap).unwrap_or_default();
    match m {
        Manip::GzipRotated => {
            for f in &fam {
                if matches!(f.parsed.kind, Kind::Rotated(_)) && !f.parsed.gz {
                    // the current file of a direct naming is the last one: keep it plain
                    let is_last = fam.last().is_some_and(|l| l.name == f.name);
                    if cfg.nam().is_some_and(|n| !n.rename_style()) && is_last {
                        continue;
                    }
                    let p = dir.join(&f.name);
                    let gz = dir.join(format!("{}.gz", f.name));
                    if std::fs::write(&gz, gzip_bytes(&f.content)).is_ok() {
                        let _ = std::fs::remove_file(&p);
                    }
                }
            }
        }
        Manip::RemoveCurrent => {
            for f in &fam {
                if matches!(f.parsed.kind, Kind::Current | Kind::Plain) {
                    let _ = std::fs::remove_file(dir.join(&f.name));
                }
            }
            // direct namings: the current file is the newest member of the family (if it is plain)
            if cfg.nam().is_some_and(|n| !n.rename_style()) {
                if let Some(l) = fam.last() {
                    if matches!(l.parsed.kind, Kind::Rotated(_)) && !l.parsed.gz {
                        let _ = std::fs::remove_file(dir.join(&l.name));
                    }
                }
            }
        }
        Manip::ShiftNumbersHigh => {
            if !matches!(cfg.nam(), Some(Nam::Numbers | Nam::NumbersDirect)) {
                return;
            }
            let mut rot: Vec<(u64, String)> = fam
                .iter()
                .filter_map(|f| match f.parsed.kind {
                    Kind::Rotated(crate::observe::Key::Num(n)) => Some((n, f.name.clone())),
                    _ => None,
                })
                .collect();
            let Some(max) = rot.iter().map(|(n, _)| *n).max() else {
                return;
            };
            if max >= 99_000 {
                return;
            }
            let shift = 99_998 - max;
            rot.sort();
            rot.reverse();
            for (n, name) in rot {
                let old = format!("r{n:05}");
                let new = format!("r{:05}", n + shift);
                // the infix is the last occurrence of the number in the name
                if let Some(pos) = name.rfind(&old) {
                    let renamed = format!("{}{}{}", &name[..pos], new, &name[pos + old.len()..]);
                    let _ = std::fs::rename(dir.join(&name), dir.join(renamed));
                }
            }
        }
        Manip::RemoveRotated(i) => {
            let rot: Vec<_> = fam.iter().filter(|f| matches!(f.parsed.kind, Kind::Rotated(_))).collect();
            // never the newest one of a direct naming (it is the current file)
            if !rot.is_empty() {
                let n = if cfg.nam().is_some_and(|n| !n.rename_style()) { rot.len() - 1 } else { rot.len() };
                if n > 0 {
                    let _ = std::fs::remove_file(dir.join(&rot[i % n].name));
                }
            }
        }
    }
}

/// runs the case; `cb` returns Err((sig, msg)) to stop with a failure
pub fn execute(
    case: &MrCase,
    dir: &Path,
    errfile: Option<&Path>,
    link: Option<&Path>,
    observe_ops: bool,
    cb: &mut dyn FnMut(Event) -> Result<(), (String, String)>,
) -> Result<Model, (String, String)> {
    let cfg = &case.cfg;
    let mut ex = Exec::new(cfg, Some(case.t0));
    let _ = std::fs::create_dir_all(dir);
    for (ri, run) in case.runs.iter().enumerate() {
        if ri > 0 {
            h().advance(run.gap_ms * MS);
            for m in &run.manips {
                apply_manip(cfg, dir, m);
            }
        }
        {
            let snap = snapshot(dir);
            if std::env::var("FLV_DEBUG").is_ok() {
                eprintln!("run {ri} start (append={}): {}", run.append, dir_listing(dir));
            }
            cb(Event::RunStart { run: ri, snap: &snap })?;
        }
        ex.model.start_run(run.append);
        let before_len = ex.model.expected_stream().len();
        let _ = before_len;
        let mut lines: Vec<u8> = Vec::new();
        let sess = Sess::start(cfg, dir, run.append, errfile, link).map_err(|e| ("start-failed".to_string(), e))?;
        let mut wrote = false;
        if let Err(e) = cb(Event::Started { run: ri, sess: &sess }) {
            sess.shutdown();
            return Err(e);
        }
        for op in &run.ops {
            if let Op::Write(len) = op {
                let p = crate::util::payload(ex.src, ex.seq, *len);
                lines.extend_from_slice(p.as_bytes());
                lines.extend_from_slice(cfg.line_ending());
                wrote = true;
            }
            if let Err(e) = ex.apply(&sess, op) {
                sess.shutdown();
                return Err(("op-failed".into(), e));
            }
            if std::env::var("FLV_DEBUG").is_ok() {
                eprintln!("  run {ri} op {op:?} -> {}", dir_listing(dir));
            }
            if observe_ops {
                let snap = snapshot(dir);
                if let Err(e) = cb(Event::AfterOp { run: ri, op, snap: &snap, model: &ex.model, sess: &sess }) {
                    sess.shutdown();
                    return Err(e);
                }
            }
        }
        sess.shutdown();
        let snap = snapshot(dir);
        cb(Event::RunEnd { run: ri, snap: &snap, model: &ex.model, lines: &lines, wrote })?;
    }
    Ok(ex.model)
}

pub fn cleanup_strat() -> BoxedStrategy<Cln> {
    prop_oneof![
        3 => Just(Cln::Never),
        3 => prop_oneof![Just(0usize), Just(1usize), Just(2usize), Just(3usize), Just(5usize)].prop_map(Cln::Keep),
        2 => prop_oneof![Just(0usize), Just(1usize), Just(2usize), Just(3usize)].prop_map(Cln::KeepGz),
        3 => (prop_oneof![Just(0usize), Just(1usize), Just(2usize), Just(3usize)], prop_oneof![Just(0usize), Just(1usize), Just(2usize), Just(3usize)]).prop_map(|(k, m)| Cln::KeepBoth(k, m)),
        // limits at the end of the integer range ("keep everything")
        1 => prop_oneof![Just(Cln::Keep(usize::MAX)), Just(Cln::KeepGz(usize::MAX)), Just(Cln::KeepBoth(usize::MAX, 1)), Just(Cln::KeepBoth(1, usize::MAX)), Just(Cln::KeepBoth(usize::MAX, usize::MAX))],
    ]
    .boxed()
}

/// rotating configuration with plain name parts
pub fn rot_cfg_strat(cln: BoxedStrategy<Cln>, modes: BoxedStrategy<Mode>) -> BoxedStrategy<FileCfg> {
    (rot_pair_strat(), cln, modes, suffix_strat(), name_parts(false), any::<bool>(), prop::bool::weighted(0.5), prop::bool::weighted(0.15), build_variant_strat())
        .prop_map(|((crit, nam), cln, mode, suffix, (basename, discr), crlf, via_logger, utc, build_variant)| {
            let empty_infix = nam.current_token().as_deref() == Some("");
            let basename = if empty_infix && basename.is_none() && discr.is_none() { Some("app".to_string()) } else { basename };
            // suffix "gz": flexi_logger takes such files for compressed already and never compresses
            // them; what a compressing cleanup means there is not defined anywhere - not generated
            let cln = match (suffix.as_deref(), cln) {
                (Some("gz"), Cln::KeepGz(m)) => Cln::Keep(m),
                (Some("gz"), Cln::KeepBoth(k, m)) => Cln::Keep(k.saturating_add(m)),
                (_, c) => c,
            };
            FileCfg {
                basename,
                discr,
                suffix,
                start_ts: false,
                rot: Some(Rot { crit, nam, cln }),
                mode,
                crlf,
                utc,
                symlink: false,
                bg_cleanup: false,
                via_logger: via_logger && !utc,
                build_variant,
            }
        })
        .boxed()
}

/// see FileCfg::build_variant
pub fn build_variant_strat() -> BoxedStrategy<u8> {
    prop_oneof![3 => Just(0u8), 1 => Just(1u8), 2 => Just(2u8)].boxed()
}

pub fn runs_strat(cfg: &FileCfg, max_runs: usize, with_manips: bool, max_ops: usize) -> BoxedStrategy<Vec<MrRun>> {
    let n = cfg.rot.as_ref().and_then(|r| r.crit.size());
    let cap = cfg.mode.buffer_cap();
    let le = cfg.line_ending().len();
    let manip = if with_manips {
        prop::collection::vec(
            prop_oneof![3 => Just(Manip::GzipRotated), 3 => Just(Manip::RemoveCurrent), 3 => (0usize..8).prop_map(Manip::RemoveRotated), 2 => Just(Manip::ShiftNumbersHigh)],
            0..2,
        )
        .boxed()
    } else {
        Just(Vec::new()).boxed()
    };
    prop::collection::vec(
        (
            any::<bool>(),
            prop_oneof![Just(0i64), Just(1i64), Just(999i64), Just(1000i64), Just(61_000i64), Just(86_400_000i64), Just(40 * 86_400_000i64)],
            manip,
            ops_strat(n, cap, le, true, max_ops).prop_map(|v| v.into_iter().filter(|o| !matches!(o, Op::Flush)).collect::<Vec<_>>()),
        ),
        1..=max_runs,
    )
    .prop_map(|v| v.into_iter().map(|(append, gap_ms, manips, ops)| MrRun { append, gap_ms, manips, ops }).collect())
    .boxed()
}

pub fn is_family(cfg: &FileCfg, name: &str) -> bool {
    classify(cfg, name).is_some()
}
