//! flv: property-based verification harness for flexi_logger.
//!
//!   flv check <ID> [--tier quick|thorough] [--seed N]
//!   flv replay <ID> <file>
//!   flv worker <ID> <tier> <seed> <chunk> <ncases> <outfile>      (internal)
//!   flv child <kind> <file>                                       (internal)
use flvlib::{hooks, props, runner, vtime};

use runner::Tier;
use std::path::Path;

macro_rules! dispatch {
    ($id:expr, $f:ident $(, $arg:expr)*) => {
        match $id {
            "C01" => runner::$f::<props::c01::P>($($arg),*),
            "C02" => runner::$f::<props::c02::P>($($arg),*),
            "C03" => runner::$f::<props::c03::P>($($arg),*),
            "C04" => runner::$f::<props::c04::P>($($arg),*),
            "C05" => runner::$f::<props::c05::P>($($arg),*),
            "C06" => runner::$f::<props::c06::P>($($arg),*),
            "C07" => runner::$f::<props::c07::P>($($arg),*),
            "C08" => runner::$f::<props::c08::P>($($arg),*),
            "C09" => runner::$f::<props::c09::P>($($arg),*),
            "C16" => runner::$f::<props::c16::P>($($arg),*),
            "C17" => runner::$f::<props::c17::P>($($arg),*),
            "C10" => runner::$f::<props::c10::P>($($arg),*),
            "C11" => runner::$f::<props::c11::P>($($arg),*),
            "C12" => runner::$f::<props::c12::P>($($arg),*),
            "C13" => runner::$f::<props::c13::P>($($arg),*),
            "C14" => runner::$f::<props::c14::P>($($arg),*),
            "C15" => runner::$f::<props::c15::P>($($arg),*),
            "C18" => runner::$f::<props::c18::P>($($arg),*),
            "C19" => runner::$f::<props::c19::P>($($arg),*),
            "C20" => runner::$f::<props::c20::P>($($arg),*),
            other => {
                eprintln!("unknown property {other}");
                2
            }
        }
    };
}

fn peek_tz(file: &Path) -> Option<String> {
    let text = std::fs::read_to_string(file).ok()?;
    let v: serde_json::Value = serde_json::from_str(&text).ok()?;
    let c = v.get("case").unwrap_or(&v);
    c.get("tz").and_then(|t| t.as_str()).map(str::to_string)
}

fn main() {
    let args: Vec<String> = std::env::args().collect();
    let code = match args.get(1).map(String::as_str) {
        Some("check") => {
            let id = args.get(2).cloned().unwrap_or_default();
            let mut tier = std::env::var("VERIF_TIER").map_or(Tier::Quick, |t| Tier::parse(&t));
            let mut seed: u64 = std::env::var("VERIF_SEED")
                .ok()
                .and_then(|s| s.trim().parse::<i64>().ok())
                .map_or(0, |v| v as u64);
            let mut i = 3;
            while i < args.len() {
                match args[i].as_str() {
                    "--tier" => {
                        tier = Tier::parse(&args[i + 1]);
                        i += 1;
                    }
                    "--seed" => {
                        seed = args[i + 1].parse::<i64>().map_or(0, |v| v as u64);
                        i += 1;
                    }
                    _ => {}
                }
                i += 1;
            }
            dispatch!(id.as_str(), check, tier, seed)
        }
        Some("replay") => {
            let id = args.get(2).cloned().unwrap_or_default();
            let file = args.get(3).cloned().unwrap_or_default();
            let tz = peek_tz(Path::new(&file)).unwrap_or_else(|| "UTC".into());
            vtime::apply_tz(&tz);
            std::env::set_var("FLV_REPLAY", "1");
            dispatch!(id.as_str(), replay, Path::new(&file))
        }
        Some("worker") => {
            let id = args[2].clone();
            let tier = Tier::parse(&args[3]);
            std::env::set_var("FLV_TIER", tier.name());
            let seed: u64 = args[4].parse().unwrap_or(0);
            let chunk = args[5].clone();
            let n: u64 = args[6].parse().unwrap_or(0);
            let out = args[7].clone();
            let ci: usize = chunk.parse().unwrap_or(0);
            vtime::apply_tz(vtime::TZS[ci % vtime::TZS.len()]);
            dispatch!(id.as_str(), worker, tier, seed, &chunk, n, Path::new(&out))
        }
        Some("child") => {
            let kind = args.get(2).cloned().unwrap_or_default();
            let file = args.get(3).cloned().unwrap_or_default();
            if let Ok(tz) = std::env::var("TZ") {
                vtime::apply_tz(&tz);
            }
            runner::install_panic_hook_child();
            hooks::install();
            match kind.as_str() {
                "c13" => props::c13::child_main(Path::new(&file)),
                "c11" => props::c11::child_main(Path::new(&file)),
                "c20" => props::c20::child_main(Path::new(&file)),
                "c03" => props::c03::child_main(Path::new(&file)),
                "c04" => props::c04::child_main(Path::new(&file)),
                other => {
                    eprintln!("unknown child kind {other}");
                    2
                }
            }
        }
        _ => {
            eprintln!("usage: flv check <ID> [--tier quick|thorough] [--seed N] | replay <ID> <file>");
            2
        }
    };
    std::process::exit(code);
}
