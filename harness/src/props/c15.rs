//! C15 File contents do not depend on the write mode; raw byte chunks pass unchanged.
use crate::fscn::*;
use crate::hooks::h;
use crate::model::Model;
use crate::observe::{family, snapshot, FamFile};
use crate::runner::{Outcome, Property, Tier};
use crate::util::{lossy, payload, Scratch};
use crate::vtime::VInst;
use flexi_logger::writers::FileLogWriter;
use proptest::prelude::*;
use serde::{Deserialize, Serialize};

#[derive(Clone, Debug, Serialize, Deserialize)]
pub enum Item {
    /// a record with a payload of this length
    Rec(usize),
    /// a raw chunk written through io::Write
    Chunk(Vec<u8>),
    Flush,
    /// reopen_output without any external action (and without a flush before it): changes nothing
    Reopen,
    /// a record (payload of this length, marker appended) for which the format function returns an
    /// error after it has written the text
    RecFormatErr(usize),
}

#[derive(Clone, Debug, Serialize, Deserialize)]
pub struct Case {
    pub tz: String,
    pub cfg: FileCfg,
    pub modes: Vec<Mode>,
    pub items: Vec<Item>,
}

pub struct P;

fn chunk_strat(n: Option<u64>) -> BoxedStrategy<Vec<u8>> {
    let big = n.map_or(300usize, |n| (3 * n as usize + 5).min(400));
    prop_oneof![
        2 => Just(Vec::new()),
        4 => any::<u8>().prop_map(|b| vec![b]),
        // the bytes that used to be taken for control messages (repaired; formerly KF-C15-1)
        1 => prop_oneof![Just(b"F".to_vec()), Just(b"S".to_vec()), Just(b"SS".to_vec())],
        1 => Just(b"FF".to_vec()),
        1 => Just(b"S\n".to_vec()),
        4 => prop::collection::vec(any::<u8>(), 0..24),
        2 => prop::collection::vec(prop_oneof![Just(b'\n'), Just(b'\r'), Just(b'a'), Just(0u8)], 0..12),
        1 => prop::collection::vec(any::<u8>(), big..big + 40),
        1 => prop::collection::vec(any::<u8>(), 8192..8300),
    ]
    .boxed()
}

/// writes the message like `raw_format`; for a message that contains the marker it returns an
/// error afterwards (a format function may fail; sync modes report that and write what was formatted)
const FAIL_MARK: &str = "#fmt-err#";
fn format_that_may_fail(w: &mut dyn std::io::Write, _now: &mut flexi_logger::DeferredNow, record: &log::Record) -> Result<(), std::io::Error> {
    let text = record.args().to_string();
    w.write_all(text.as_bytes())?;
    if text.contains(FAIL_MARK) {
        return Err(std::io::Error::other("format function reports an error"));
    }
    Ok(())
}

fn run_mode(case: &Case, mode: Mode, chunks: bool, sc: &Scratch, tag: &str) -> Result<(Vec<FamFile>, Model), String> {
    let mut cfg = case.cfg.clone();
    cfg.mode = mode;
    let dir = sc.sub(tag);
    h().reset_births();
    h().set_time(Some(VInst::default_inst().to_ns()));
    flexi_logger::verif_hooks::set_error_channel(flexi_logger::ErrorChannel::DevNull);
    let mut model = Model::new(&cfg);
    model.start_run(false);
    let now = h().time();
    if chunks {
        let (mut w, handle) = flw_builder(&cfg, &dir, false, None)
            .try_build_with_handle()
            .map_err(|e| format!("try_build_with_handle: {e:?}"))?;
        for it in &case.items {
            match it {
                Item::Chunk(c) => {
                    model.write(c, now);
                    use std::io::Write;
                    // io::Write::write may accept fewer bytes than offered: the rest is offered
                    // again, as write_all does (an empty chunk is offered exactly once)
                    let mut rest: &[u8] = c;
                    loop {
                        match w.write(rest) {
                            Ok(n) if n == rest.len() => break,
                            Ok(n) if n > 0 && n < rest.len() => rest = &rest[n..],
                            other => return Err(format!("io::Write::write returned {other:?} for {} offered bytes (chunk of {} bytes)", rest.len(), c.len())),
                        }
                    }
                }
                Item::Flush => {
                    use std::io::Write;
                    let _ = w.flush();
                    if mode.is_async() {
                        // let the writer thread catch up (and return its buffers to the pool)
                        std::thread::sleep(std::time::Duration::from_millis(1));
                    }
                }
                Item::Reopen => {
                    let _ = w.reopen_outputfile();
                }
                Item::Rec(_) | Item::RecFormatErr(_) => {}
            }
        }
        drop(handle);
        drop(w);
    } else {
        let w: FileLogWriter = flw_builder(&cfg, &dir, false, None)
            .format(format_that_may_fail)
            .try_build()
            .map_err(|e| format!("try_build: {e:?}"))?;
        let sess = Sess::Flw(w);
        let mut q = 0;
        for it in &case.items {
            match it {
                Item::Rec(len) => {
                    let p = payload(0, q, *len);
                    q += 1;
                    let mut line = p.clone().into_bytes();
                    line.extend_from_slice(cfg.line_ending());
                    model.write(&line, now);
                    sess.write(&p);
                }
                Item::Flush => {
                    sess.flush();
                    if mode.is_async() {
                        std::thread::sleep(std::time::Duration::from_millis(1));
                    }
                }
                Item::RecFormatErr(len) => {
                    let p = format!("{}{FAIL_MARK}", payload(0, q, *len));
                    q += 1;
                    let mut line = p.clone().into_bytes();
                    line.extend_from_slice(cfg.line_ending());
                    model.write(&line, now);
                    sess.write(&p);
                }
                Item::Reopen => {
                    let _ = sess.reopen();
                }
                Item::Chunk(_) => {}
            }
        }
        sess.shutdown();
    }
    let snap = snapshot(&dir);
    let fam = family(&cfg, &snap)?;
    Ok((fam, model))
}

fn contents(f: &[FamFile]) -> Vec<Vec<u8>> {
    f.iter().filter(|x| !x.content.is_empty()).map(|x| x.content.clone()).collect()
}

impl Property for P {
    type Case = Case;
    const ID: &'static str = "C15";
    const LEVEL: &'static str = "exploration";
    fn rule() -> String {
        "differential over write modes: the same generated sequence of records (lengths around the size limit and the buffer capacities) or of raw byte chunks (empty, single bytes, chunks without line ending, chunks larger than any buffer) is executed under Direct, BufferDontFlush(cap), BufferAndFlush(cap), Async{pool,msg} (frozen virtual clock, rotation off or Size(N)); after shutdown the ordered list of file contents must equal the Direct run's and the reference partition model, and for chunks the concatenation must equal the input. Fixed part: for each of the 256 byte values one case with that single byte as a chunk of its own (enumerated). Non-trivial = at least 2 modes compared on a case with a rotation or a chunk larger than a buffer; distinct = distinct serialized case".into()
    }
    fn fixed_exhaustive_note() -> Option<String> {
        Some("all 256 single-byte chunk values, each under Direct/Buffered/Async, with and without rotation (512 enumerated cases)".into())
    }
    fn assumptions() -> Vec<String> {
        vec!["forced rotation is not part of the histories (in async mode it acts on the state while records are queued)".into()]
    }
    fn cases(tier: Tier) -> u64 {
        match tier {
            Tier::Quick => 12_000,
            Tier::Thorough => 400_000,
        }
    }
    fn chunk(_t: Tier) -> u64 {
        150
    }
    fn replay_repeats() -> u32 {
        // async modes: which pooled buffer a record gets depends on the writer thread's progress
        10
    }
    fn fixed_cases(_tier: Tier) -> Vec<Case> {
        let mut v = Vec::new();
        for rot in [false, true] {
            for b in 0..=255u8 {
                let mut cfg = FileCfg::plain();
                if rot {
                    cfg.rot = Some(Rot { crit: Crit::Size(2), nam: Nam::Numbers, cln: Cln::Never });
                }
                v.push(Case {
                    tz: "UTC".into(),
                    cfg,
                    modes: vec![Mode::Direct, Mode::BufDontFlush(4), Mode::Async { pool: 2, msg: 4, flush_ms: 0 }],
                    items: vec![Item::Chunk(b"ab".to_vec()), Item::Chunk(vec![b]), Item::Chunk(b"cd\n".to_vec()), Item::Chunk(vec![b]), Item::Chunk(b"e".to_vec())],
                });
            }
        }
        v
    }
    fn strategy(_tier: Tier) -> BoxedStrategy<Case> {
        (
            prop::option::weighted(0.7, (0u64..80, prop_oneof![Just(Nam::Numbers), Just(Nam::NumbersDirect), Just(Nam::Timestamps), Just(Nam::TimestampsDirect)])),
            any::<bool>(),
            any::<bool>(),
            prop::collection::vec(sync_mode_strat(), 1..3),
            prop::collection::vec(async_mode_strat(), 1..3),
        )
            .prop_flat_map(|(rot, crlf, use_chunks, mut sm, am)| {
                let n = rot.as_ref().map(|r| r.0);
                let mut cfg = FileCfg::plain();
                cfg.crlf = crlf;
                cfg.rot = rot.map(|(n, nam)| Rot { crit: Crit::Size(n), nam, cln: Cln::Never });
                sm.extend(am);
                let cap = sm.iter().filter_map(|m| m.buffer_cap()).filter(|c| *c < 4096).max();
                let le = cfg.line_ending().len();
                let item = if use_chunks {
                    prop_oneof![18 => chunk_strat(n).prop_map(Item::Chunk), 2 => Just(Item::Flush), 1 => Just(Item::Reopen)].boxed()
                } else {
                    prop_oneof![18 => crate::hist::len_strat(n, cap, le).prop_map(Item::Rec), 2 => Just(Item::Flush), 1 => Just(Item::Reopen), 1 => crate::hist::len_strat(n, cap, le).prop_map(Item::RecFormatErr)].boxed()
                };
                (Just(cfg), Just(sm), prop::collection::vec(item, 0..40))
            })
            .prop_map(|(cfg, mut modes, items)| {
                modes.insert(0, Mode::Direct);
                Case { tz: crate::vtime::tz_name(), cfg, modes, items }
            })
            .boxed()
    }

    fn run(case: &Case) -> Outcome {
        let mut out = Outcome::ok();
        let sc = Scratch::new("c15");
        let chunks = case.items.iter().any(|i| matches!(i, Item::Chunk(_)));
        out.class(if chunks { "raw-chunks" } else { "records" });
        let mut reference: Option<Vec<Vec<u8>>> = None;
        // the same including empty files (a rotation carried out for an empty chunk, a file
        // opened for nothing but empty chunks): every mode produces the same list as Direct
        let mut reference_all: Option<Vec<Vec<u8>>> = None;
        let mut compared = 0;
        let mut rotated = false;
        for (i, mode) in case.modes.iter().enumerate() {
            out.class(mode.label());
            let control_chunk = mode.is_async()
                && case.items.iter().any(|it| matches!(it, Item::Chunk(c) if c.as_slice() == b"F" || c.as_slice() == b"S"));
            let (fam, model) = match run_mode(case, *mode, chunks, &sc, &format!("m{i}")) {
                Ok(x) => x,
                Err(e) => {
                    out.set_fail(
                        if control_chunk { "async-chunk-equals-control-message" } else { "run-failed" },
                        format!("{mode:?}: {e}"),
                    );
                    return out;
                }
            };
            let got = contents(&fam);
            let exp: Vec<Vec<u8>> = model.nonempty_chunks().iter().map(|c| c.bytes.clone()).collect();
            rotated |= exp.len() > 1;
            let describe = |v: &Vec<Vec<u8>>| v.iter().map(|b| format!("{:?}", lossy(b))).collect::<Vec<_>>().join(" | ");
            if got != exp {
                out.set_fail(
                    if control_chunk { "async-chunk-equals-control-message" } else { "mode-content-differs-from-model" },
                    format!("{mode:?}: files {} ; expected {}", describe(&got), describe(&exp)),
                );
                return out;
            }
            if chunks {
                let all: Vec<u8> = got.concat();
                let input: Vec<u8> = case.items.iter().filter_map(|i| if let Item::Chunk(c) = i { Some(c.clone()) } else { None }).collect::<Vec<_>>().concat();
                if all != input {
                    out.set_fail("chunk-concatenation-differs", format!("{mode:?}: {}", crate::util::diff_msg(&input, &all)));
                    return out;
                }
            }
            let got_all: Vec<Vec<u8>> = fam.iter().map(|x| x.content.clone()).collect();
            match &reference_all {
                None => reference_all = Some(got_all),
                Some(r) => {
                    if *r != got_all {
                        out.set_fail("mode-file-list-differs-from-direct", format!("{mode:?}: files (including empty ones) {} vs Direct {}", describe(&got_all), describe(r)));
                        return out;
                    }
                }
            }
            match &reference {
                None => reference = Some(got),
                Some(r) => {
                    compared += 1;
                    if *r != got {
                        out.set_fail("mode-content-differs-from-direct", format!("{mode:?}: {} vs Direct {}", describe(&got), describe(r)));
                        return out;
                    }
                }
            }
        }
        let caps: Vec<usize> = case.modes.iter().filter_map(|m| match m {
            Mode::BufDontFlush(c) | Mode::BufAndFlush(c, _) => Some(*c),
            Mode::Async { msg, .. } => Some(*msg),
            _ => None,
        }).collect();
        let min_cap = caps.iter().copied().min().unwrap_or(usize::MAX);
        let big = case.items.iter().any(|i| match i {
            Item::Chunk(c) => c.len() > min_cap,
            Item::Rec(l) | Item::RecFormatErr(l) => *l + 1 > min_cap,
            Item::Flush | Item::Reopen => false,
        });
        if big {
            out.class("item-larger-than-buffer");
        }
        if rotated {
            out.class("rotation");
        }
        if compared >= 1 && (rotated || big) {
            out.nontrivial = true;
        }
        out
    }
}
