pub mod c01;
pub mod c02;
pub mod c05;
pub mod c08;
pub mod c09;
pub mod c12;
pub mod c13;
pub mod c15;
pub mod c17;
pub mod c20;
pub mod part;

/// Restarting a logger that writes directly to timestamp-named files (TimestampsDirect,
/// TimestampsCustomFormat without current infix) is a listed finding (see known_findings.txt,
/// property C06). Checks of other properties avoid that region by construction and count it.
pub fn avoid_direct_ts_restart(cfg: &crate::fscn::FileCfg) -> bool {
    match cfg.nam() {
        Some(n) => n.is_ts() && !n.rename_style(),
        None => false,
    }
}
