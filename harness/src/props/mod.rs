pub mod c01;
pub mod c02;
pub mod c03;
pub mod c04;
pub mod c05;
pub mod c06;
pub mod c07;
pub mod c08;
pub mod c09;
pub mod c10;
pub mod c11;
pub mod c12;
pub mod c13;
pub mod c14;
pub mod c15;
pub mod c16;
pub mod c17;
pub mod c18;
pub mod c19;
pub mod c20;
pub mod part;

/// Restarting a logger that writes directly to timestamp-named files used to be a listed
/// finding; it was repaired in /repo (fix commit d7661b4), so nothing is avoided any more.
pub fn avoid_direct_ts_restart(_cfg: &crate::fscn::FileCfg) -> bool {
    false
}

/// Listed finding KF-C07-1: the cleanup orders files lexicographically by name. With a
/// TimestampsCustomFormat whose rendering does not sort chronologically (day or month first)
/// and a cleanup strategy, it keeps/removes the wrong files. Failures of such cases get this
/// signature (and nothing else does).
pub fn unsortable_format_with_cleanup(_cfg: &crate::fscn::FileCfg) -> bool {
    // formerly finding KF-C07-1 (cleanup ordered files by name; formats like "%d-%m-%Y" do not
    // sort chronologically); repaired in /repo, so nothing is attributed to it any more
    false
}
pub const SIG_UNSORTABLE: &str = "cleanup-with-unsortable-timestamp-format";
