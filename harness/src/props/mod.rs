pub mod c01;
