pub mod c01;
pub mod c02;
pub mod c05;
pub mod c08;
pub mod c09;
pub mod c10;
pub mod c12;
pub mod c13;
pub mod c15;
pub mod c17;
pub mod c20;
pub mod part;

/// Restarting a logger that writes directly to timestamp-named files used to be a listed
/// finding; it was repaired in /repo (fix commit d7661b4), so nothing is avoided any more.
pub fn avoid_direct_ts_restart(_cfg: &crate::fscn::FileCfg) -> bool {
    false
}
