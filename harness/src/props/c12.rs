//! C12 Concurrent specification changes end in one consistent specification and gate.
use super::c02::build_logger;
use crate::hooks::{h, MODE_PARK, PARK_ID};
use crate::runner::{Outcome, Property, Tier};
use crate::spec::*;
use proptest::prelude::*;
use serde::{Deserialize, Serialize};
use std::time::{Duration, Instant};

#[derive(Clone, Debug, Serialize, Deserialize)]
pub enum TOp {
    SetNew(MSpec),
    ParseNew(String),
    Push(MSpec),
    Pop,
}

#[derive(Clone, Debug, Serialize, Deserialize)]
pub struct Case {
    pub initial: MSpec,
    /// pushed sequentially before the threads start (so that Pop has something to pop)
    pub pushed: MSpec,
    pub writers: Vec<(String, u8)>,
    pub ops: Vec<TOp>,
    /// for 3 threads in the quick tier: which sample of the 1680 interleavings to run
    pub sample_seed: u64,
    /// Some: the logger is built with a specification file; while the threads run, the file is
    /// replaced by this specification and flexi_logger's watcher thread submits it (one more
    /// participant of the interleaving, taken under control when it arrives at its first point)
    #[serde(default)]
    pub watcher: Option<MSpec>,
}

pub struct P;

/// all distinct orderings of the multiset {0 x steps, 1 x steps, ..., (k-1) x steps}
fn interleavings(k: usize, steps: usize) -> Vec<Vec<usize>> {
    fn rec(left: &mut Vec<usize>, cur: &mut Vec<usize>, out: &mut Vec<Vec<usize>>) {
        if left.iter().all(|c| *c == 0) {
            out.push(cur.clone());
            return;
        }
        for i in 0..left.len() {
            if left[i] > 0 {
                left[i] -= 1;
                cur.push(i);
                rec(left, cur, out);
                cur.pop();
                left[i] += 1;
            }
        }
    }
    let mut out = Vec::new();
    rec(&mut vec![steps; k], &mut Vec::new(), &mut out);
    out
}

/// like c02::build_logger, but with a specification file and flexi_logger's watcher thread
fn build_logger_with_specfile(spec: &MSpec, writers: &[(String, u8)], specfile: &std::path::Path) -> Result<super::c02::Built, String> {
    use flexi_logger::{ErrorChannel, Logger};
    let (prim, prim_rec) = Recorder::new(5);
    let mut l = Logger::with(spec.build_with_builder())
        .log_to_writer(Box::new(prim))
        .error_channel(ErrorChannel::DevNull)
        .panic_if_error_channel_is_broken(false);
    let mut ws = Vec::new();
    for (name, ceil) in writers {
        let (w, r) = Recorder::new(*ceil);
        l = l.add_writer(name.clone(), Box::new(w));
        ws.push((name.clone(), *ceil, r));
    }
    let (log, handle) = l.build_with_specfile(specfile).map_err(|e| format!("build_with_specfile: {e:?}"))?;
    Ok(super::c02::Built { log: std::sync::Arc::from(log), handle, primary: prim_rec, writers: ws, filter_seen: None })
}

struct RunResult {
    executed: Vec<(u64, &'static str)>,
    decisions: Vec<bool>,
    gate: u8,
    /// after the verdict: every clone that pushed during the concurrent phase pops again, one
    /// after the other; (index of the operation, decisions, gate) after each pop
    epilogue: Vec<(usize, Vec<bool>, u8)>,
}

fn submitted(op: &TOp, pushed_over: &MSpec) -> Option<MSpec> {
    match op {
        TOp::SetNew(s) | TOp::Push(s) => Some(s.clone()),
        TOp::ParseNew(t) => {
            let rp = ref_parse(t);
            if rp.malformed {
                None
            } else {
                Some(rp.spec)
            }
        }
        TOp::Pop => Some(pushed_over.clone()),
    }
}

fn run_interleaving(case: &Case, order: &[usize], targets: &[String]) -> Result<RunResult, String> {
    let sc = crate::util::Scratch::new("c12");
    let specfile = sc.sub("spec/logspec.toml");
    let b = if case.watcher.is_some() { build_logger_with_specfile(&case.initial, &case.writers, &specfile)? } else { build_logger(&case.initial, false, &case.writers, false)? };
    let mut main_handle = b.handle.clone();
    main_handle.push_temp_spec(case.pushed.build_with_builder());
    let k = case.ops.len();
    let watcher_id = crate::hooks::ADOPTED_BASE;
    h().reset_points();
    {
        let mut pk = h().park.lock().unwrap();
        for i in 0..k {
            pk.controlled.insert(i as u64 + 1);
        }
        if case.watcher.is_some() {
            pk.controlled.insert(watcher_id);
            pk.adopt = Some(watcher_id);
        }
    }
    h().set_mode(MODE_PARK);
    if let Some(ws) = &case.watcher {
        // replace the file in one step (written next to it, then renamed into place)
        let mut buf = Vec::new();
        ws.build_with_builder().to_toml(&mut buf).map_err(|e| format!("to_toml: {e:?}"))?;
        let tmp = sc.sub("spec-new.toml");
        std::fs::write(&tmp, &buf).map_err(|e| format!("write specfile: {e}"))?;
        std::fs::rename(&tmp, &specfile).map_err(|e| format!("rename specfile: {e}"))?;
    }
    let mut joins = Vec::new();
    for (i, op) in case.ops.iter().enumerate() {
        let mut hd = main_handle.clone();
        let op = op.clone();
        joins.push(std::thread::spawn(move || {
            PARK_ID.with(|c| c.set(i as u64 + 1));
            // a schedule point of the harness: the start of the call, so that what a call does
            // before its first point inside flexi_logger can be placed between the steps of others
            let _ = flexi_logger::verif_hooks::point("call.start", None);
            match op {
                TOp::SetNew(s) => hd.set_new_spec(s.build_with_builder()),
                TOp::ParseNew(t) => {
                    let _ = hd.parse_new_spec(&t);
                }
                TOp::Push(s) => hd.push_temp_spec(s.build_with_builder()),
                TOp::Pop => hd.pop_temp_spec(),
            }
            let hh = h();
            let mut pk = hh.park.lock().unwrap_or_else(|p| p.into_inner());
            pk.controlled.remove(&(i as u64 + 1));
            hh.park_cv.notify_all();
            drop(pk);
            // the clone must not be dropped before the verdict: dropping a handle clone shuts
            // the writers down (not part of this property)
            hd
        }));
    }
    // scheduler
    let hh = h();
    let mut pending: std::collections::VecDeque<usize> = order.iter().copied().collect();
    let id_of = |w: usize| -> u64 { if w >= k { watcher_id } else { w as u64 + 1 } };
    if case.watcher.is_some() {
        // the watcher thread arrives about a second after the file changed (debounce time):
        // nothing is granted before it is there, otherwise it would always come last
        let deadline = Instant::now() + Duration::from_secs(6);
        let mut pk = hh.park.lock().unwrap_or_else(|p| p.into_inner());
        while !pk.parked.contains_key(&watcher_id) && Instant::now() < deadline {
            let (g, _) = hh.park_cv.wait_timeout(pk, Duration::from_millis(20)).unwrap_or_else(|p| p.into_inner());
            pk = g;
        }
        if !pk.parked.contains_key(&watcher_id) {
            // the watcher did not come (no event): release its slot, the run goes on without it
            pk.controlled.remove(&watcher_id);
            pk.adopt = None;
        }
    }
    {
        // nothing is granted before every thread has arrived at its first point: what a call does
        // before that point (e.g. reading the facade's level) then happens before every update,
        // in the worker as in a replay
        let deadline = Instant::now() + Duration::from_millis(500);
        let mut pk = hh.park.lock().unwrap_or_else(|p| p.into_inner());
        while (1..=k as u64).any(|id| pk.controlled.contains(&id) && !pk.parked.contains_key(&id)) && Instant::now() < deadline {
            let (g, _) = hh.park_cv.wait_timeout(pk, Duration::from_millis(5)).unwrap_or_else(|p| p.into_inner());
            pk = g;
        }
    }
    let t0 = Instant::now();
    loop {
        let mut pk = hh.park.lock().unwrap_or_else(|p| p.into_inner());
        if pk.controlled.is_empty() {
            break;
        }
        if t0.elapsed() > Duration::from_secs(10) {
            // release everybody, report
            hh.set_mode(crate::hooks::MODE_OFF);
            let ids: Vec<u64> = pk.controlled.iter().copied().collect();
            for id in ids {
                pk.granted.insert(id);
            }
            hh.park_cv.notify_all();
            drop(pk);
            for j in joins {
                let _ = j.join();
            }
            return Err("scheduler timeout".into());
        }
        // wanted thread: first pending entry whose thread is still controlled
        while let Some(w) = pending.front() {
            if pk.controlled.contains(&id_of(*w)) {
                break;
            }
            pending.pop_front();
        }
        let want = pending.front().map(|w| id_of(*w));
        let mut chosen = None;
        if let Some(w) = want {
            // wait (bounded) for the wanted thread to arrive at its next point
            let deadline = Instant::now() + Duration::from_millis(10);
            loop {
                if pk.parked.contains_key(&w) && !pk.granted.contains(&w) {
                    chosen = Some(w);
                    break;
                }
                if !pk.controlled.contains(&w) {
                    break;
                }
                let now = Instant::now();
                if now >= deadline {
                    break;
                }
                let (g, _) = hh.park_cv.wait_timeout(pk, deadline - now).unwrap_or_else(|p| p.into_inner());
                pk = g;
            }
            if chosen.is_some() {
                pending.pop_front();
            }
        }
        if chosen.is_none() {
            // the wanted thread is blocked (on a lock) or there is no wish left: take any
            // parked thread, so that the run makes progress; the verdict does not depend on it
            let mut ids: Vec<u64> = pk.parked.keys().copied().filter(|i| !pk.granted.contains(i)).collect();
            ids.sort_unstable();
            chosen = ids.first().copied();
        }
        match chosen {
            Some(id) => {
                let passed = pk.log.len();
                pk.granted.insert(id);
                hh.park_cv.notify_all();
                // wait until the thread has passed this point
                let deadline = Instant::now() + Duration::from_secs(2);
                while pk.log.len() == passed && Instant::now() < deadline {
                    let (g, _) = hh.park_cv.wait_timeout(pk, Duration::from_millis(50)).unwrap_or_else(|p| p.into_inner());
                    pk = g;
                }
            }
            None => {
                let (g, _) = hh.park_cv.wait_timeout(pk, Duration::from_millis(5)).unwrap_or_else(|p| p.into_inner());
                drop(g);
            }
        }
    }
    let mut clones: Vec<flexi_logger::LoggerHandle> = Vec::new();
    for j in joins {
        match j.join() {
            Ok(hd) => clones.push(hd),
            Err(_) => return Err("a controlled thread panicked".into()),
        }
    }
    hh.set_mode(crate::hooks::MODE_OFF);
    let executed = hh.park.lock().unwrap().log.clone();
    let gate = lf_num(log::max_level());
    let mut decisions = Vec::new();
    for t in targets {
        for l in 1..=5u8 {
            let md = log::Metadata::builder().level(lvl(l)).target(t).build();
            decisions.push(b.log.enabled(&md));
        }
    }
    // epilogue (sequential): what a push saved while other calls were in flight is re-activated
    // by its pop - as a whole specification, with a gate that admits it
    let mut epilogue = Vec::new();
    for (i, hd) in clones.iter_mut().enumerate() {
        if matches!(case.ops.get(i), Some(TOp::Push(_))) {
            hd.pop_temp_spec();
            let gate = lf_num(log::max_level());
            let mut d = Vec::new();
            for t in targets {
                for l in 1..=5u8 {
                    let md = log::Metadata::builder().level(lvl(l)).target(t).build();
                    d.push(b.log.enabled(&md));
                }
            }
            epilogue.push((i, d, gate));
        }
    }
    drop(clones);
    drop(main_handle);
    Ok(RunResult { executed, decisions, gate, epilogue })
}

fn overlapped(executed: &[(u64, &'static str)]) -> bool {
    // two calls overlap in time: one thread enters its call while the other is between its
    // enter and exit points
    let pos = |id: u64, name: &str| executed.iter().position(|(i, n)| *i == id && *n == name);
    let ids: std::collections::BTreeSet<u64> = executed.iter().map(|(i, _)| *i).collect();
    for a in &ids {
        for b in &ids {
            if a != b {
                if let (Some(ae), Some(ax), Some(be)) = (pos(*a, "spec.enter"), pos(*a, "spec.exit"), pos(*b, "spec.enter")) {
                    if ae < be && be < ax {
                        return true;
                    }
                }
            }
        }
    }
    false
}

impl Property for P {
    type Case = Case;
    const ID: &'static str = "C12";
    const LEVEL: &'static str = "exploration";
    fn rule() -> String {
        "systematic interleavings at hook granularity: 2-3 threads, each performing one of set_new_spec | parse_new_spec | push_temp_spec | pop_temp_spec on a clone of the handle with generated specs of different maximum levels and module sets, in 6 % of the cases plus flexi_logger's own specfile watcher thread (logger built with build_with_specfile, the file replaced while the threads run; the watcher is taken under control when it arrives at its first point); controlled threads are parked at a harness-owned point before their call starts (so that what a call does before its first point inside flexi_logger can be placed between the steps of the others), at the three schedule points of every specification update (enter, between the spec update and the max-level update, exit) and, with an additional writer, at a further point that belongs to the harness (the recording writer's max_log_level(), which flexi_logger calls between taking over the specification and setting the facade's level) and a scheduler thread grants one step at a time, after all threads have arrived at their first point; for 2 threads all 70 orderings of the 2x4 steps (252 with an additional writer) are executed per case, for 3 threads a seed-chosen 120 (quick) or 1680 (thorough) of the 34 650; after all calls returned: Log::enabled over the level x target grid must equal the reference matcher of exactly one submitted specification as a whole, and log::max_level must admit everything this specification (and every additional writer) accepts; then (epilogue) every clone that pushed during the concurrent phase pops again, one after the other, and after each pop the same two conditions must hold for one of the specifications that can have been active at the push. Non-trivial = an executed interleaving in which two calls overlap in time (one thread passes its enter point while the other is between its enter and exit points) with specs of different maximum level; distinct = distinct serialized case; sub_evaluations = interleavings executed".into()
    }
    fn fixed_exhaustive_note() -> Option<String> {
        Some("per 2-thread case all 70 interleavings of the 2x4 schedule points (252 with an additional writer); 3-thread cases are sampled".into())
    }
    fn assumptions() -> Vec<String> {
        vec![
            "interleavings are controlled at the granularity of the three hook points; what happens between two points runs uninterrupted on one thread while the others are parked".into(),
            "the specfile watcher takes part in about 6 % of the cases if the harness is built with its feature `watcher` (check.sh does that for C12; each of these runs waits about a second for the debounced file event); only a seed-chosen handful of orderings is executed for those".into(),
        ]
    }
    fn cases(tier: Tier) -> u64 {
        match tier {
            Tier::Quick => 240,
            Tier::Thorough => 1_500,
        }
    }
    fn chunk(_t: Tier) -> u64 {
        15
    }
    fn case_timeout() -> Duration {
        Duration::from_secs(120)
    }
    fn strategy(tier: Tier) -> BoxedStrategy<Case> {
        let op = prop_oneof![
            4 => mspec_strat().prop_map(TOp::SetNew),
            1 => wellformed_string().prop_map(|(t, _)| TOp::ParseNew(t)),
            2 => mspec_strat().prop_map(TOp::Push),
            2 => Just(TOp::Pop),
        ];
        let three = if tier == Tier::Thorough { 0.15 } else { 0.08 };
        (
            mspec_strat(),
            mspec_strat(),
            prop::collection::btree_map(Just("W1".to_string()), 0u8..6, 0..2),
            prop::bool::weighted(three).prop_flat_map(move |t| prop::collection::vec(op.clone(), if t { 3..4 } else { 2..3 })),
            any::<u64>(),
            if cfg!(feature = "watcher") { prop::option::weighted(if std::env::var("FLV_C12_WATCHER_ONLY").is_ok() { 0.99 } else { 0.06 }, mspec_strat()).boxed() } else { Just(None).boxed() },
        )
            .prop_map(|(initial, pushed, writers, ops, sample_seed, watcher)| {
                // with the watcher: at most two handle threads next to it
                let ops = if watcher.is_some() { ops.into_iter().take(2).collect() } else { ops };
                Case { initial, pushed, writers: writers.into_iter().collect(), ops, sample_seed, watcher }
            })
            .boxed()
    }

    fn run(case: &Case) -> Outcome {
        let mut out = Outcome::ok();
        let k = case.ops.len() + usize::from(case.watcher.is_some());
        // schedule points per call: start (harness), enter, updated, exit, and one per additional writer (the
        // harness-owned point in its max_log_level())
        let steps = 4 + case.writers.len();
        let mut orders = if k >= 3 && steps > 3 {
            // 34 650 orderings: generated by sampling below
            Vec::new()
        } else {
            interleavings(k, steps)
        };
        if orders.is_empty() {
            let mut x = crate::util::mix(case.sample_seed, 0xABCD);
            for _ in 0..(if std::env::var("FLV_TIER").is_ok_and(|t| t == "thorough") { 1680 } else { 120 }) {
                let mut left = vec![steps; k];
                let mut o = Vec::new();
                while left.iter().any(|c| *c > 0) {
                    x = crate::util::mix(x, 0x77);
                    let avail: Vec<usize> = (0..k).filter(|i| left[*i] > 0).collect();
                    let pick = avail[(x % avail.len() as u64) as usize];
                    left[pick] -= 1;
                    o.push(pick);
                }
                orders.push(o);
            }
        }
        let thorough = std::env::var("FLV_TIER").is_ok_and(|t| t == "thorough");
        if case.watcher.is_some() {
            // every run waits about a second for the watcher: a seed-chosen handful of orders
            let n = orders.len();
            let mut picked = Vec::new();
            let mut x = case.sample_seed;
            for _ in 0..(if thorough { 6 } else { 3 }) {
                x = crate::util::mix(x, 0x51ED);
                picked.push(orders[(x % n as u64) as usize].clone());
            }
            orders = picked;
            out.class("specfile-watcher");
        } else if k >= 3 && !thorough {
            // deterministic sample of 120 of the 1680
            let n = orders.len();
            let mut picked = Vec::new();
            let mut x = case.sample_seed;
            for _ in 0..120 {
                x = crate::util::mix(x, 0x9E37);
                picked.push(orders[(x % n as u64) as usize].clone());
            }
            orders = picked;
        }
        out.class(if k == 2 { "2-threads" } else { "3-threads" });
        let k = case.ops.len();
        // candidates: every specification submitted by an operation; if none, the state before
        let cands: Vec<MSpec> = {
            let mut v: Vec<MSpec> = case.ops.iter().filter_map(|o| submitted(o, &case.initial)).collect();
            if let Some(ws) = &case.watcher {
                v.push(ws.clone());
            }
            if v.is_empty() {
                v.push(case.pushed.clone());
            }
            v
        };
        let mut names: Vec<String> = cands.iter().flat_map(MSpec::names).collect();
        names.sort();
        names.dedup();
        let targets = grid_targets(&names);
        let cand_dec: Vec<Vec<bool>> = cands
            .iter()
            .map(|c| {
                let mut v = Vec::new();
                for t in &targets {
                    for l in 1..=5u8 {
                        v.push(c.enabled(l, t));
                    }
                }
                v
            })
            .collect();
        let writer_need = case.writers.iter().map(|(_, c)| *c).max().unwrap_or(0);
        let distinct_max = {
            let mut m: Vec<u8> = cands.iter().map(MSpec::max_level).collect();
            m.sort_unstable();
            m.dedup();
            m.len() > 1
        };
        let mut n = 0u64;
        for order in &orders {
            n += 1;
            let r = match run_interleaving(case, order, &targets) {
                Ok(r) => r,
                Err(e) => {
                    out.set_fail("interleaving-failed", format!("order {order:?}: {e}"));
                    break;
                }
            };
            let matching: Vec<usize> = (0..cands.len()).filter(|i| cand_dec[*i] == r.decisions).collect();
            if matching.is_empty() {
                out.set_fail(
                    "final-spec-is-no-submitted-spec",
                    format!("order {order:?} (executed {:?}): final filtering equals none of the submitted specifications {:?}", r.executed, cands.iter().map(MSpec::render).collect::<Vec<_>>()),
                );
                break;
            }
            // the gate must fit at least one of the specs the filtering is consistent with
            let ok = matching.iter().any(|i| r.gate >= cands[*i].max_level().max(writer_need));
            if !ok {
                out.set_fail(
                    "gate-below-final-spec",
                    format!(
                        "order {order:?} (executed {:?}): the logger filters by {:?} (max level {}), but log::max_level() is {} — records this specification enables never reach the logger",
                        r.executed,
                        cands[matching[0]].render(),
                        cands[matching[0]].max_level(),
                        r.gate
                    ),
                );
                break;
            }
            // the pops of the epilogue: the re-activated specification is the one that was active
            // when the push ran - the one active at the start or any submitted one
            let mut epi_failed = false;
            for (i, d, gate) in &r.epilogue {
                out.class("epilogue-pop-after-concurrent-push");
                let mut c2: Vec<(&MSpec, Vec<bool>)> = cands.iter().zip(cand_dec.iter().cloned()).collect();
                let pushed_dec: Vec<bool> = targets.iter().flat_map(|t| (1..=5u8).map(move |l| (l, t))).map(|(l, t)| case.pushed.enabled(l, t)).collect();
                c2.push((&case.pushed, pushed_dec));
                let m: Vec<&(&MSpec, Vec<bool>)> = c2.iter().filter(|(_, cd)| cd == d).collect();
                if m.is_empty() {
                    out.set_fail(
                        "after-pop:final-spec-is-no-submitted-spec",
                        format!("order {order:?} (executed {:?}), then pop_temp_spec() on the clone of operation #{i}: filtering equals none of the specifications that can have been active at the push", r.executed),
                    );
                    epi_failed = true;
                    break;
                }
                if !m.iter().any(|(c, _)| *gate >= c.max_level().max(writer_need)) {
                    out.set_fail(
                        "after-pop:gate-below-final-spec",
                        format!(
                            "order {order:?} (executed {:?}), then pop_temp_spec() on the clone of operation #{i}: the logger filters by {:?} (max level {}), but log::max_level() is {}",
                            r.executed,
                            m[0].0.render(),
                            m[0].0.max_level(),
                            gate
                        ),
                    );
                    epi_failed = true;
                    break;
                }
            }
            if epi_failed {
                break;
            }
            if r.executed.iter().any(|(i, _)| *i >= crate::hooks::ADOPTED_BASE) {
                out.class("watcher-call-scheduled");
                let w = crate::hooks::ADOPTED_BASE;
                let pos = |id: u64, name: &str| r.executed.iter().position(|(i, n)| *i == id && *n == name);
                let others: Vec<u64> = r.executed.iter().map(|(i, _)| *i).filter(|i| *i != w).collect();
                if let (Some(we), Some(wx)) = (pos(w, "spec.enter"), pos(w, "spec.exit")) {
                    if others.iter().any(|o| pos(*o, "spec.enter").is_some_and(|oe| we < oe && oe < wx) || matches!((pos(*o, "spec.enter"), pos(*o, "spec.exit")), (Some(oe), Some(ox)) if oe < we && we < ox)) {
                        out.class("watcher-call-overlaps-handle-call");
                    }
                }
            }
            if overlapped(&r.executed) {
                out.class("overlapping-updates");
                if distinct_max {
                    out.nontrivial = true;
                }
            }
        }
        out.weight = n.max(1);
        out
    }
}
