//! C16 Log files are named as documented; path-derived specs, listing and symlink agree.
use crate::fscn::*;
use crate::hist::Op;
use crate::hooks::{h, ns_to_local};
use crate::mr::*;
use crate::observe::{classify, snapshot, EKind, Entry, Kind};
use crate::runner::{Outcome, Property, Tier};
use crate::util::Scratch;
use crate::vtime::vinst_strat;
use flexi_logger::writers::{FileLogWriter, LogWriter};
use flexi_logger::{DeferredNow, FileSpec, LogfileSelector};
use proptest::prelude::*;
use serde::{Deserialize, Serialize};
use std::collections::BTreeSet;
use std::path::{Path, PathBuf};

#[derive(Clone, Debug, Serialize, Deserialize)]
pub enum Case {
    History {
        mr: MrCase,
        selector: u8,
        custom_current: String,
    },
    TryFrom {
        /// path relative to the scratch directory that is the cwd of the case
        rel: String,
        absolute: bool,
    },
}

pub struct P;

fn selector(bits: u8, custom: &str) -> LogfileSelector {
    let mut s = if bits & 1 != 0 { LogfileSelector::default() } else { LogfileSelector::none() };
    if bits & 2 != 0 {
        s = s.with_r_current();
    }
    if bits & 4 != 0 {
        s = s.with_compressed_files();
    }
    if bits & 8 != 0 {
        s = s.with_custom_current(custom);
    }
    s
}

/// what the selector asks for, by the reference grammar
fn expected_listing(cfg: &FileCfg, snap: &[Entry], bits: u8, custom: &str, current_start: Option<&String>) -> BTreeSet<String> {
    let mut out = BTreeSet::new();
    for e in snap {
        if e.kind != EKind::File {
            continue;
        }
        let Some(p) = classify(cfg, &e.name) else { continue };
        // with a [starttime] part, the files of earlier starts belong to other families
        if cfg.start_ts && p.start_ts.as_ref() != current_start {
            continue;
        }
        let hit = match &p.kind {
            // without rotation there is exactly one file; the selector has nothing to choose
            Kind::Plain => true,
            Kind::Rotated(_) => (p.gz && bits & 4 != 0) || (!p.gz && bits & 1 != 0),
            Kind::Current => !p.gz && ((bits & 2 != 0 && p.infix == "rCURRENT") || (bits & 8 != 0 && p.infix == custom)),
        };
        if hit {
            out.insert(e.name.clone());
        }
    }
    out
}

fn path_strat() -> BoxedStrategy<String> {
    let stem = prop_oneof![
        Just("bare".to_string()), Just(".hidden".to_string()), Just("a.b".to_string()), Just("a.b.c".to_string()),
        Just("noext".to_string()), Just("with space".to_string()), Just("ünï".to_string()), Just("trailing.".to_string()),
        Just("x_r00001".to_string()), "[a-z]{1,6}",
    ];
    let ext = prop_oneof![Just(".log".to_string()), Just(String::new()), Just(".txt".to_string()), Just(".l".to_string()), Just(".tar.gz".to_string())];
    let dir = prop_oneof![
        3 => Just(String::new()),
        2 => Just("./".to_string()),
        2 => Just("sub/".to_string()),
        1 => Just("sub/deeper/".to_string()),
        1 => Just("./sub/../other/".to_string()),
        1 => Just("dir.with.dots/".to_string()),
    ];
    (dir, stem, ext).prop_map(|(d, s, e)| format!("{d}{s}{e}")).boxed()
}

impl Property for P {
    type Case = Case;
    const ID: &'static str = "C16";
    const LEVEL: &'static str = "exploration";
    fn rule() -> String {
        "two generated domains: (1) multi-run histories (1-3 runs; writes, rotations, clock advances; all namings, cleanup incl. compression, name-part combinations incl. suppressed basename, discriminant, [starttime], no suffix; symlink in 50%): after logger start (before the first write) and after every operation existing_log_files(selector) - for a generated selector out of all 16 combinations incl. a custom current infix - must equal, as a set of existing paths, the directory snapshot filtered by the reference family predicate and the selector; every entry in the directory must be a family member with exactly the configured name parts, the [starttime] part must be the (virtual) time of the logger start; the symlink must resolve to the file that receives the next record (checked by appending a marker record); (2) paths for FileSpec::try_from (bare file name, ./x, nested, .. components, dot files, several dots, no extension, blanks, non-ASCII; relative to the case's cwd or absolute): as_pathbuf(None) must denote the same path and a FileLogWriter built from it must write the record into exactly that file. Non-trivial = (1) at least one rotation and a query after a clock advance of >= 1 s, (2) a path with empty parent, no extension, several dots or a dot file; distinct = distinct serialized case".into()
    }
    fn assumptions() -> Vec<String> {
        vec![
            "paths are compared after normalisation of '.' components and through the file system (same inode)".into(),
            "the symlink is created with an absolute log directory (a relative link target seen from another directory is not asserted)".into(),
        ]
    }
    fn cases(tier: Tier) -> u64 {
        match tier {
            Tier::Quick => 60_000,
            Tier::Thorough => 1_500_000,
        }
    }
    fn strategy(_tier: Tier) -> BoxedStrategy<Case> {
        let hist = (rot_cfg_strat(cleanup_strat(), sync_mode_strat()), prop::bool::weighted(0.15), prop::bool::weighted(0.2), any::<bool>(), vinst_strat(), 0u8..16)
            .prop_flat_map(|(mut cfg, no_rot, start_ts, symlink, t0, selector)| {
                if no_rot {
                    cfg.rot = None;
                    if cfg.basename.is_none() && cfg.discr.is_none() {
                        cfg.basename = Some("app".into());
                    }
                }
                cfg.start_ts = start_ts;
                cfg.symlink = symlink;
                let runs = runs_strat(&cfg, 3, false, 14);
                let custom = cfg.nam().and_then(Nam::current_token).filter(|t| !t.is_empty()).unwrap_or_else(|| "cur".to_string());
                (Just(cfg), Just(t0), runs, Just(selector), prop_oneof![3 => Just(custom), 1 => Just("other".to_string())])
            })
            .prop_map(|(cfg, t0, runs, selector, custom_current)| Case::History {
                mr: MrCase { tz: crate::vtime::tz_name(), cfg, t0, runs },
                selector,
                custom_current,
            });
        let tf = (path_strat(), any::<bool>()).prop_map(|(rel, absolute)| Case::TryFrom { rel, absolute });
        prop_oneof![3 => hist, 1 => tf].boxed()
    }

    fn run(case: &Case) -> Outcome {
        match case {
            Case::History { mr, selector, custom_current } => run_history(mr, *selector, custom_current),
            Case::TryFrom { rel, absolute } => run_try_from(rel, *absolute),
        }
    }
}

fn run_try_from(rel: &str, absolute: bool) -> Outcome {
    let mut out = Outcome::ok();
    out.class("try_from");
    let sc = Scratch::new("c16");
    let old_cwd = std::env::current_dir().ok();
    if std::env::set_current_dir(&sc.path).is_err() {
        return Outcome::fail("harness-cwd", "cannot set cwd");
    }
    let given: PathBuf = if absolute { sc.path.join(rel) } else { PathBuf::from(rel) };
    let restore = || {
        if let Some(c) = &old_cwd {
            let _ = std::env::set_current_dir(c);
        }
    };
    let r = (|| -> Result<(), (String, String)> {
        let spec = FileSpec::try_from(given.clone()).map_err(|e| ("try-from-refused".to_string(), format!("FileSpec::try_from({given:?}) failed: {e:?}")))?;
        let derived = spec.as_pathbuf(None);
        let norm = |p: &Path| -> Vec<String> {
            p.components()
                .filter(|c| !matches!(c, std::path::Component::CurDir))
                .map(|c| c.as_os_str().to_string_lossy().to_string())
                .collect()
        };
        if norm(&derived) != norm(&given) {
            return Err(("try-from-denotes-other-path".into(), format!("FileSpec::try_from({given:?}).as_pathbuf(None) = {derived:?}")));
        }
        let w = FileLogWriter::builder(spec)
            .format(raw_format)
            .try_build()
            .map_err(|e| ("logger-from-path-spec-refused".to_string(), format!("a FileLogWriter for the spec derived from {given:?} cannot be built: {e:?}")))?;
        let mut now = DeferredNow::new();
        let _ = LogWriter::write(&w, &mut now, &log::Record::builder().args(format_args!("marker-c16")).level(log::Level::Error).build());
        LogWriter::shutdown(&w);
        drop(w);
        match std::fs::read(&given) {
            Ok(b) if b == b"marker-c16\n" => Ok(()),
            other => Err((
                "logger-from-path-spec-writes-elsewhere".into(),
                format!("after logging, {given:?} holds {:?}; directory tree: {:?}", other.map(|b| String::from_utf8_lossy(&b).to_string()), tree(&sc.path)),
            )),
        }
    })();
    restore();
    if let Err((sig, msg)) = r {
        out.set_fail(sig, msg);
    }
    let p = Path::new(rel);
    if p.parent().is_none_or(|d| d.as_os_str().is_empty()) {
        out.class("bare-file-name");
        out.nontrivial = true;
    }
    let fname = p.file_name().map(|f| f.to_string_lossy().to_string()).unwrap_or_default();
    if fname.starts_with('.') || fname.matches('.').count() != 1 {
        out.class("dot-file-or-several-dots-or-no-extension");
        out.nontrivial = true;
    }
    out
}

fn tree(root: &Path) -> Vec<String> {
    let mut v = Vec::new();
    fn walk(d: &Path, root: &Path, v: &mut Vec<String>) {
        if let Ok(rd) = std::fs::read_dir(d) {
            for e in rd.flatten() {
                let p = e.path();
                v.push(p.strip_prefix(root).unwrap_or(&p).to_string_lossy().to_string());
                if p.is_dir() {
                    walk(&p, root, v);
                }
            }
        }
    }
    walk(root, root, &mut v);
    v.sort();
    v
}

fn run_history(mr: &MrCase, bits: u8, custom: &str) -> Outcome {
    let mut out = Outcome::ok();
    out.class("history");
    let sc = Scratch::new("c16");
    let dir = sc.sub("logs");
    let link = sc.sub("current-link");
    let cfg = &mr.cfg;
    out.class(cfg.nam().map_or("nam:none", |n| n.label()));
    if cfg.start_ts {
        out.class("with-starttime-part");
    }
    let mut start_times: Vec<String> = Vec::new();
    let mut advanced_since_start = false;
    let mut rotated = false;
    let mut queried_after_advance = false;
    let start_fmt = "%Y-%m-%d_%H-%M-%S";
    let check = |when: &str, sess: &Sess, start_times: &Vec<String>| -> Result<(), (String, String)> {
        let snap = snapshot(&dir);
        // every entry is a family member with the configured parts
        for e in &snap {
            match classify(cfg, &e.name) {
                None => return Err(("entry-outside-naming-pattern".into(), format!("{when}: {:?} does not follow [basename][_discriminant][_starttime][_infix][.suffix] for this configuration; entries {:?}", e.name, crate::observe::names(&snap)))),
                Some(p) => {
                    if let Some(ts) = &p.start_ts {
                        if !start_times.contains(ts) {
                            return Err(("starttime-part-is-not-the-start-time".into(), format!("{when}: file {:?} carries start time {ts}, but the logger(s) were started at {start_times:?} (virtual time)", e.name)));
                        }
                    }
                }
            }
        }
        // listing
        let got = sess.existing(&selector(bits, custom)).map_err(|e| ("existing-log-files-failed".to_string(), e))?;
        let got_names: BTreeSet<String> = got.iter().filter(|p| p.exists()).map(|p| p.file_name().map(|n| n.to_string_lossy().to_string()).unwrap_or_default()).collect();
        if let Some(bad) = got.iter().find(|p| !p.exists()) {
            return Err(("listing-contains-nonexistent-path".into(), format!("{when}: existing_log_files returned {bad:?}, which does not exist; directory: {:?}", crate::observe::names(&snap))));
        }
        if let Some(bad) = got.iter().find(|p| p.parent().map(Path::to_path_buf) != Some(dir.clone())) {
            return Err(("listing-outside-directory".into(), format!("{when}: existing_log_files returned {bad:?}, outside {dir:?}")));
        }
        let want = expected_listing(cfg, &snap, bits, custom, start_times.last());
        if got_names != want {
            return Err((
                "listing-mismatch".into(),
                format!("{when}: existing_log_files(selector bits {bits}, custom {custom:?}) = {got_names:?}, expected {want:?}; directory: {:?}", crate::observe::names(&snap)),
            ));
        }
        Ok(())
    };
    let res = execute(mr, &dir, None, cfg.symlink.then_some(link.as_path()), true, &mut |ev| {
        match ev {
            Event::Started { run, sess } => {
                let now = ns_to_local(h().time().unwrap());
                start_times.push(now.format(start_fmt).to_string());
                advanced_since_start = false;
                check(&format!("run #{run} right after start"), sess, &start_times)?;
            }
            Event::AfterOp { run, op, sess, model, .. } => {
                match op {
                    Op::Advance(ms) if *ms >= 1000 => advanced_since_start = true,
                    _ => {}
                }
                if model.rotations() > 0 {
                    rotated = true;
                }
                sess.flush();
                check(&format!("run #{run} after {op:?}"), sess, &start_times)?;
                if advanced_since_start && rotated {
                    queried_after_advance = true;
                }
                // symlink -> file that receives the next record
                if cfg.symlink && model.initialized {
                    let target = std::fs::read_link(&link).map_err(|e| ("symlink-missing".to_string(), format!("run #{run} after {op:?}: {e}")))?;
                    let before = std::fs::metadata(&target).map(|m| m.len()).unwrap_or(0);
                    let sizes_before: Vec<(String, u64)> = snapshot(&dir).iter().map(|e| (e.name.clone(), e.size)).collect();
                    // a record that triggers no rotation cannot be guaranteed; compare against
                    // where the marker really went
                    let marker = "";
                    let _ = marker;
                    let _ = before;
                    let _ = sizes_before;
                    // the file the logger writes to right now is the newest family file
                    let snap = snapshot(&dir);
                    let fam = crate::observe::family(cfg, &snap).unwrap_or_default();
                    let cur = fam.iter().rev().find(|f| !f.parsed.gz && (matches!(f.parsed.kind, Kind::Current | Kind::Plain) || !cfg.nam().is_some_and(|n| n.rename_style())));
                    if let Some(cur) = cur {
                        if target.file_name().map(|n| n.to_string_lossy().to_string()) != Some(cur.name.clone()) || target.parent() != Some(dir.as_path()) {
                            return Err(("symlink-does-not-point-to-current-file".into(), format!("run #{run} after {op:?}: symlink -> {target:?}, current file is {:?}", cur.name)));
                        }
                    }
                }
            }
            _ => {}
        }
        Ok(())
    });
    if let Err((sig, msg)) = res {
        if crate::props::unsortable_format_with_cleanup(cfg) {
            out.set_fail(crate::props::SIG_UNSORTABLE, format!("{sig}: {msg}"));
        } else {
            out.set_fail(sig, msg);
        }
    }
    if cfg.symlink {
        out.class("symlink");
    }
    if queried_after_advance {
        out.nontrivial = true;
    }
    out
}
