//! C19 I/O failures are reported, lose only the failing write, and logging recovers.
use crate::fscn::*;
use crate::hist::Op;
use crate::hooks::{h, MODE_FAULT, MODE_OFF, MODE_TRACE};
use crate::model::Model;
use crate::observe::{classify, family, snapshot, FamFile, Kind};
use crate::runner::{Outcome, Property, Tier};
use crate::util::{lossy, payload, Scratch};
use crate::vtime::{vinst_strat, VInst, MS};
use proptest::prelude::*;
use serde::{Deserialize, Serialize};
use std::collections::{BTreeMap, BTreeSet};

#[derive(Clone, Debug, Serialize, Deserialize)]
pub struct Case {
    pub tz: String,
    pub cfg: FileCfg,
    pub t0: VInst,
    pub ops: Vec<Op>,
    /// seed for the choice of bursts
    pub burst_seed: u64,
}

pub struct P;

const FAULT_POINTS: [&str; 10] = ["write", "rotate.rename", "open", "cleanup.remove", "gz.create", "gz.open", "gz.copy", "gz.finish", "gz.remove_original", "reopen"];
/// failures at these points keep a record from being written or a rotation from completing
const MUST_REPORT: [&str; 3] = ["write", "rotate.rename", "open"];

struct RunRes {
    /// per record: names of the faults that fired during its log call
    faults_during: BTreeMap<u32, Vec<String>>,
    init_done_before: BTreeMap<u32, bool>,
    err_grew: BTreeMap<(String, u64), bool>,
    fam: Vec<FamFile>,
    lens: BTreeMap<u32, usize>,
    trace: Vec<(String, u64)>,
    tail_rotate_ok: bool,
    tail_first: u32,
    stray: Vec<String>,
    /// Some(text): after the faults had cleared and one more rotation (with its cleanup pass) had
    /// completed, more files exist than the cleanup strategy allows
    limits_exceeded: Option<String>,
    /// what the reference partition model predicts for the operations of this run (all writes
    /// taken as successful): the byte contents of the files in order
    model_chunks: Vec<Vec<u8>>,
}

fn run_once(case: &Case, sc: &Scratch, tag: &str, faults: &BTreeMap<(String, u64), std::io::ErrorKind>) -> Result<RunRes, (String, String)> {
    run_once_x(case, sc, tag, faults, false)
}

/// `slow_cleanup`: a directed schedule for the background cleanup thread (it only changes timing):
/// its passes are held back until the operation in which a fault fired and one more operation are
/// done, then they run while the logging thread pauses, then the history continues
fn run_once_x(case: &Case, sc: &Scratch, tag: &str, faults: &BTreeMap<(String, u64), std::io::ErrorKind>, slow_cleanup: bool) -> Result<RunRes, (String, String)> {
    let cfg = &case.cfg;
    let dir = sc.sub(tag);
    let err = sc.sub(&format!("{tag}.err"));
    let hh = h();
    hh.reset_points();
    hh.reset_births();
    hh.set_time(Some(case.t0.to_ns()));
    {
        let mut ps = hh.points.lock().unwrap();
        ps.faults = faults.iter().map(|(k, v)| (k.clone(), *v)).collect();
        if slow_cleanup {
            ps.hold_points.insert("cleanup.thread".to_string());
        }
    }
    hh.set_mode(if faults.is_empty() { MODE_TRACE } else { MODE_FAULT });
    let sess = std::cell::RefCell::new(Some(Sess::start(cfg, &dir, false, Some(&err), None).map_err(|e| ("start-failed".to_string(), e))?));
    // a third of the cases restart the logger (no append) in the middle of the history, so that
    // faults can also hit the initialisation of a writer that finds files of an earlier run
    let restart_at = if !slow_cleanup && cfg.rot.is_some() && case.burst_seed % 3 == 0 && case.ops.len() >= 2 { Some(case.ops.len() / 2) } else { None };
    let mut model = Model::new(cfg);
    model.start_run(false);
    let mut q = 0u32;
    let mut res = RunRes {
        faults_during: BTreeMap::new(),
        init_done_before: BTreeMap::new(),
        err_grew: BTreeMap::new(),
        fam: Vec::new(),
        lens: BTreeMap::new(),
        trace: Vec::new(),
        tail_rotate_ok: true,
        tail_first: 0,
        stray: Vec::new(),
        limits_exceeded: None,
        model_chunks: Vec::new(),
    };
    // (time, Some(line) = record | None = forced rotation), replayed through the model afterwards
    let events: std::cell::RefCell<Vec<(Option<i64>, Option<Vec<u8>>)>> = std::cell::RefCell::new(Vec::new());
    let err_len = || std::fs::metadata(&err).map(|m| m.len()).unwrap_or(0);
    let mut ops_since_fault = 0u32;
    let mut initialized = false;
    let mut do_write = |len: usize, q: &mut u32, res: &mut RunRes, initialized: &mut bool| {
        let p = payload(0, *q, len.max(8));
        res.lens.insert(*q, len.max(8));
        let hits_before = hh.points.lock().unwrap().faults_hit.len();
        let e0 = err_len();
        res.init_done_before.insert(*q, *initialized);
        {
            let mut line = p.clone().into_bytes();
            line.extend_from_slice(cfg.line_ending());
            events.borrow_mut().push((hh.time(), Some(line)));
        }
        sess.borrow().as_ref().unwrap().write(&p);
        let hits: Vec<(String, u64)> = hh.points.lock().unwrap().faults_hit[hits_before..].to_vec();
        let grew = err_len() > e0;
        for hkey in &hits {
            res.err_grew.insert(hkey.clone(), grew);
        }
        if !hits.is_empty() {
            res.faults_during.insert(*q, hits.iter().map(|(n, _)| n.clone()).collect());
        }
        // the writer counts as initialised once a write went through without an init-time fault
        if hits.is_empty() || *initialized {
            *initialized = true;
        }
        *q += 1;
    };
    for (op_index, op) in case.ops.iter().enumerate() {
        if restart_at == Some(op_index) {
            if let Some(old) = sess.borrow_mut().take() {
                old.shutdown();
            }
            events.borrow_mut().push((hh.time(), Some(Vec::new())));
            let again = Sess::start(cfg, &dir, false, Some(&err), None).map_err(|e| ("restart-failed".to_string(), e))?;
            *sess.borrow_mut() = Some(again);
            initialized = false;
        }
        match op {
            Op::Write(len) => do_write(*len, &mut q, &mut res, &mut initialized),
            Op::Rotate => {
                let hits_before = hh.points.lock().unwrap().faults_hit.len();
                let e0 = err_len();
                events.borrow_mut().push((hh.time(), None));
                let r = sess.borrow().as_ref().unwrap().rotate();
                let hits: Vec<(String, u64)> = hh.points.lock().unwrap().faults_hit[hits_before..].to_vec();
                // an explicit rotation reports its failure through its result
                for hkey in &hits {
                    res.err_grew.insert(hkey.clone(), r.is_err() || err_len() > e0);
                }
            }
            Op::Flush => sess.borrow().as_ref().unwrap().flush(),
            Op::Advance(ms) => hh.advance(*ms * MS),
            Op::FailWrite(_) => {} // not generated for this property (faults come from its own enumeration)
            Op::MoveAwayAndReopen | Op::MoveAwayRecreateAndReopen | Op::Reopen | Op::ResetSame => {}
        }
        if slow_cleanup {
            let fired = !hh.points.lock().unwrap().faults_hit.is_empty();
            if fired {
                ops_since_fault += 1;
            }
            if ops_since_fault == 2 {
                hh.points.lock().unwrap().hold_points.clear();
                std::thread::sleep(std::time::Duration::from_millis(25));
            }
        }
    }
    hh.points.lock().unwrap().hold_points.clear();
    // tail without faults: logging and rotation resume without a restart
    if !faults.is_empty() {
        hh.set_mode(MODE_OFF);
    }
    res.tail_first = q;
    do_write(10, &mut q, &mut res, &mut initialized);
    let tail_a = q - 1;
    if cfg.rot.is_some() {
        events.borrow_mut().push((hh.time(), None));
        if sess.borrow().as_ref().unwrap().rotate().is_err() {
            res.tail_rotate_ok = false;
        }
    }
    do_write(11, &mut q, &mut res, &mut initialized);
    let tail_b = q - 1;
    if let Some(last) = sess.borrow_mut().take() {
        last.shutdown();
    }
    if faults.is_empty() {
        res.trace = hh.take_trace().into_iter().map(|(n, o, _)| (n.to_string(), o)).collect();
    }
    hh.set_mode(MODE_OFF);
    let snap = snapshot(&dir);
    res.stray = snap.iter().filter(|e| classify(cfg, &e.name).is_none()).map(|e| e.name.clone()).collect();
    // plain wins over an (incomplete) compressed twin
    let plain: BTreeSet<String> = snap.iter().map(|e| e.name.clone()).collect();
    let snap2: Vec<_> = snap.into_iter().filter(|e| !(e.name.ends_with(".gz") && plain.contains(e.name.trim_end_matches(".gz")))).collect();
    res.fam = family(cfg, &snap2).map_err(|e| ("family-illformed".to_string(), e))?;
    // recovery: the two tail records are in different files if a rotation lies between them
    if cfg.rot.is_some() && res.tail_rotate_ok {
        let find = |r: u32| -> Option<String> {
            let needle = format!("0:{r}:");
            res.fam.iter().find(|f| String::from_utf8_lossy(&f.content).lines().any(|l| l.starts_with(&needle))).map(|f| f.name.clone())
        };
        let (fa, fb) = (find(tail_a), find(tail_b));
        let cleaned = cfg.rot.as_ref().is_some_and(|r| r.cln != Cln::Never);
        if fb.is_none() || (fa.is_some() && fa == fb) || (fa.is_none() && !cleaned) {
            res.tail_rotate_ok = false;
        }
    }
    // recovery of the cleanup: the pass that follows the tail rotation ran without faults, so the
    // configured limits hold again when shutdown() has returned
    if let (true, Some((k, m))) = (res.tail_rotate_ok, cfg.rot.as_ref().and_then(|r| r.cln.limits())) {
        let c = crate::props::c07::counts(cfg, &res.fam);
        if c.plain_rotated > k || c.gz_rotated > m {
            res.limits_exceeded = Some(format!(
                "{} rotated plain files (limit {k}) and {} compressed files (limit {m}); files {:?}",
                c.plain_rotated,
                c.gz_rotated,
                res.fam.iter().map(|f| format!("{}[{}B]", f.name, f.content.len())).collect::<Vec<_>>()
            ));
        }
    }
    for (t, ev) in events.borrow().iter() {
        match ev {
            Some(line) if line.is_empty() => model.start_run(false),
            Some(line) => model.write(line, *t),
            None => model.rotate(*t),
        }
    }
    res.model_chunks = model.chunks.iter().map(|c| c.bytes.clone()).collect();
    Ok(res)
}

fn check_run(case: &Case, res: &RunRes, what: &str) -> Result<(), (String, String)> {
    check_run_x(case, res, what, false)
}

/// `partition`: no write, open or rename was made to fail in this run (faults only in cleanup and
/// compression, or none): which record goes into which file must then be exactly what the
/// reference partition model predicts - every surviving file holds the bytes of one model chunk
fn check_run_x(case: &Case, res: &RunRes, what: &str, partition: bool) -> Result<(), (String, String)> {
    let cfg = &case.cfg;
    let le = cfg.line_ending();
    if !res.stray.is_empty() {
        return Err(("stray-file".into(), format!("{what}: entries outside the naming pattern: {:?}", res.stray)));
    }
    // all records in order, each at most once
    let mut found: Vec<u32> = Vec::new();
    for f in &res.fam {
        let mut rest: &[u8] = &f.content;
        while !rest.is_empty() {
            let Some(pos) = (0..rest.len()).find(|i| rest[*i..].starts_with(le)) else {
                return Err(("torn-line".into(), format!("{what}: file {} ends with an unterminated line {:?}", f.name, lossy(rest))));
            };
            let line = String::from_utf8_lossy(&rest[..pos]).to_string();
            rest = &rest[pos + le.len()..];
            let qn: Option<u32> = line.split(':').nth(1).and_then(|x| x.parse().ok());
            match qn {
                Some(qn) if res.lens.get(&qn).is_some_and(|l| payload(0, qn, *l) == line) => found.push(qn),
                _ => return Err(("torn-line".into(), format!("{what}: file {} holds a line that is no intact record: {line:?}", f.name))),
            }
        }
    }
    for w in found.windows(2) {
        if w[1] <= w[0] {
            return Err(("records-reordered-or-duplicated".into(), format!("{what}: record {} follows record {} in the stream; files {:?}", w[1], w[0], res.fam.iter().map(|f| f.name.clone()).collect::<Vec<_>>())));
        }
    }
    let cleaned = cfg.rot.as_ref().is_some_and(|r| r.cln != Cln::Never);
    let total = res.lens.len() as u32;
    let first_found = found.first().copied().unwrap_or(total);
    for r in 0..total {
        if found.contains(&r) {
            continue;
        }
        let faults = res.faults_during.get(&r).cloned().unwrap_or_default();
        let own_write_failed = faults.iter().any(|f| f == "write");
        // (a failing open or rename keeps the writer from being initialised; a failing cleanup or
        // compression step must not)
        let init_failed = faults.iter().any(|f| !f.starts_with("cleanup.") && !f.starts_with("gz.")) && !res.init_done_before.get(&r).copied().unwrap_or(true);
        if own_write_failed || init_failed {
            continue;
        }
        if cleaned && r < first_found {
            continue; // removed by the configured cleanup limit (older than every survivor)
        }
        return Err((
            "record-lost-without-own-write-failure".into(),
            format!("{what}: record {r} is missing; faults during its log call: {faults:?}; surviving records {found:?}"),
        ));
    }
    for ((name, occ), grew) in &res.err_grew {
        if MUST_REPORT.contains(&name.as_str()) && !grew {
            return Err(("failure-not-reported".into(), format!("{what}: the injected failure of {name} (occurrence {occ}) produced no output on the error channel")));
        }
    }
    if partition {
        for f in &res.fam {
            if !f.content.is_empty() && !res.model_chunks.iter().any(|c| *c == f.content) {
                return Err((
                    "partition-changed".into(),
                    format!(
                        "{what}: file {} holds {} bytes {:?}, which is none of the chunks the size/age criterion and the forced rotations produce (sizes {:?}); files {:?}",
                        f.name,
                        f.content.len(),
                        lossy(&f.content[..f.content.len().min(60)]),
                        res.model_chunks.iter().map(Vec::len).collect::<Vec<_>>(),
                        res.fam.iter().map(|f| format!("{}[{}B]", f.name, f.content.len())).collect::<Vec<_>>()
                    ),
                ));
            }
        }
    }
    if let Some(t) = &res.limits_exceeded {
        return Err(("limits-not-restored-after-faults".into(), format!("{what}: after the faults had cleared, a further rotation and shutdown(): {t}")));
    }
    if !res.tail_rotate_ok {
        return Err(("no-recovery-after-faults".into(), format!("{what}: after the faults had cleared, a record, an explicit rotation and another record did not end up in two different files; files {:?}", res.fam.iter().map(|f| format!("{}[{}B]", f.name, f.content.len())).collect::<Vec<_>>())));
    }
    let _ = Kind::Current;
    Ok(())
}

/// RAII: soft RLIMIT_FSIZE lowered to `limit` bytes, restored on drop
struct FsizeLimit(libc::rlimit);
impl FsizeLimit {
    fn set(limit: u64) -> Option<FsizeLimit> {
        let mut old = libc::rlimit { rlim_cur: 0, rlim_max: 0 };
        unsafe {
            if libc::getrlimit(libc::RLIMIT_FSIZE, &mut old) != 0 {
                return None;
            }
            let new = libc::rlimit { rlim_cur: limit, rlim_max: old.rlim_max };
            if libc::setrlimit(libc::RLIMIT_FSIZE, &new) != 0 {
                return None;
            }
        }
        Some(FsizeLimit(old))
    }
}
impl Drop for FsizeLimit {
    fn drop(&mut self) {
        unsafe {
            libc::setrlimit(libc::RLIMIT_FSIZE, &self.0);
        }
    }
}

/// Real write failures (not injected at a hook point, so they also hit the flush of a buffered
/// writer): the log file is first filled beyond 4096 bytes, then for a window of operations the
/// process's file size limit is 4096 bytes - every write(2) that extends the log file fails with
/// EFBIG, while new (small) files and the error channel file can still be written.
/// Oracle: lines intact, in order, at most once; a record may be missing only if it was logged
/// between the last flush before the window and the end of the window (or was removed by the
/// cleanup limits), and then the error channel must have reported something; logging and rotation
/// work again afterwards.
fn real_write_failure(case: &Case, sc: &Scratch) -> Result<(bool, String), (String, String)> {
    let mut cfg = case.cfg.clone();
    let seed = crate::util::mix(case.burst_seed, 0xEFB1);
    cfg.mode = match seed % 4 {
        0 => Mode::Direct,
        1 => Mode::BufDontFlush(64),
        2 => Mode::BufDontFlush(512),
        _ => Mode::BufDontFlush(8192),
    };
    cfg.via_logger = true;
    cfg.utc = false;
    cfg.symlink = false;
    if let Some(r) = cfg.rot.as_mut() {
        // the first file is closed by the criterion only after the window has begun
        r.crit = match r.crit {
            Crit::Age(a) => Crit::AgeOrSize(a, 4400 + (seed >> 8) % 1200),
            Crit::Size(_) | Crit::AgeOrSize(_, _) => Crit::Size(4400 + (seed >> 8) % 1200),
        };
        r.crit = crate::fscn::fix_crit(r.crit, &r.nam);
    }
    let cfg = &cfg;
    let dir = sc.sub("efbig");
    let err = sc.sub("efbig.err");
    let hh = h();
    hh.reset_points();
    hh.reset_births();
    hh.set_time(Some(case.t0.to_ns()));
    hh.set_mode(MODE_OFF);
    let sess = Sess::start(cfg, &dir, false, Some(&err), None).map_err(|e| ("start-failed".to_string(), e))?;
    let mut lens: BTreeMap<u32, usize> = BTreeMap::new();
    let mut q = 0u32;
    let mut write = |len: usize, q: &mut u32, lens: &mut BTreeMap<u32, usize>| {
        let p = payload(0, *q, len.max(8));
        lens.insert(*q, len.max(8));
        sess.write(&p);
        *q += 1;
    };
    // fill beyond the limit, everything on disk
    for _ in 0..21 {
        write(199, &mut q, &mut lens);
    }
    sess.flush();
    let n_ops = case.ops.len();
    let start = if n_ops == 0 { 0 } else { ((seed >> 20) % n_ops as u64) as usize };
    let len = 1 + ((seed >> 32) % 4) as usize;
    let mut last_flush_q = q; // first record not yet known to be on disk
    let mut window_first = None;
    let mut window_last = None;
    let mut guard: Option<FsizeLimit> = None;
    for (i, op) in case.ops.iter().enumerate() {
        if i == start {
            guard = FsizeLimit::set(4096);
            if guard.is_none() {
                sess.shutdown();
                return Ok((false, "setrlimit not permitted".into()));
            }
            window_first = Some(last_flush_q);
        }
        match op {
            Op::Write(l) | Op::FailWrite(l) => write((*l).min(300), &mut q, &mut lens),
            Op::Rotate => {
                let _ = sess.rotate();
            }
            Op::Flush => {
                sess.flush();
                if guard.is_none() {
                    last_flush_q = q;
                }
            }
            Op::Advance(ms) => hh.advance(*ms * MS),
            Op::MoveAwayAndReopen | Op::MoveAwayRecreateAndReopen | Op::Reopen | Op::ResetSame => {}
        }
        if guard.is_some() && i + 1 >= start + len {
            guard = None;
            window_last = Some(q);
        }
    }
    // in a quarter of the cases the limit stays until shutdown() has returned: what is still
    // buffered then cannot be written, which has to be reported as well
    let until_shutdown = (seed >> 40) % 4 == 0;
    if until_shutdown && guard.is_none() {
        guard = FsizeLimit::set(4096);
        window_first = Some(window_first.map_or(last_flush_q, |w: u32| w.min(last_flush_q)));
        if window_last.is_some() {
            // two windows: everything from the first one on can be affected
            window_last = None;
        }
    }
    if guard.is_some() && !until_shutdown {
        guard = None;
        window_last = Some(q);
    }
    // tail: everything works again (if the limit is lifted)
    let tail_a = q;
    write(10, &mut q, &mut lens);
    let mut tail_rotate_ok = true;
    if cfg.rot.is_some() && sess.rotate().is_err() {
        tail_rotate_ok = false;
    }
    let tail_b = q;
    write(11, &mut q, &mut lens);
    sess.shutdown();
    if guard.is_some() {
        guard = None;
        window_last = Some(q);
    }
    let _ = guard;
    let snap = snapshot(&dir);
    let stray: Vec<String> = snap.iter().filter(|e| classify(cfg, &e.name).is_none()).map(|e| e.name.clone()).collect();
    if !stray.is_empty() {
        return Err(("stray-file".into(), format!("entries outside the naming pattern: {stray:?}")));
    }
    let plain: BTreeSet<String> = snap.iter().map(|e| e.name.clone()).collect();
    let snap2: Vec<_> = snap.into_iter().filter(|e| !(e.name.ends_with(".gz") && plain.contains(e.name.trim_end_matches(".gz")))).collect();
    let fam = family(cfg, &snap2).map_err(|e| ("family-illformed".to_string(), e))?;
    let le = cfg.line_ending();
    let mut found: Vec<u32> = Vec::new();
    for f in &fam {
        let mut rest: &[u8] = &f.content;
        while !rest.is_empty() {
            let Some(pos) = (0..rest.len()).find(|i| rest[*i..].starts_with(le)) else {
                return Err(("torn-line".into(), format!("file {} ends with an unterminated line {:?}", f.name, lossy(&rest[..rest.len().min(80)]))));
            };
            let line = String::from_utf8_lossy(&rest[..pos]).to_string();
            rest = &rest[pos + le.len()..];
            let qn: Option<u32> = line.split(':').nth(1).and_then(|x| x.parse().ok());
            match qn {
                Some(qn) if lens.get(&qn).is_some_and(|l| payload(0, qn, *l) == line) => found.push(qn),
                _ => return Err(("torn-line".into(), format!("file {} holds a line that is no intact record: {:?}", f.name, &line[..line.len().min(80)]))),
            }
        }
    }
    for w in found.windows(2) {
        if w[1] <= w[0] {
            return Err(("records-reordered-or-duplicated".into(), format!("record {} follows record {} in the stream", w[1], w[0])));
        }
    }
    let cleaned = cfg.rot.as_ref().is_some_and(|r| r.cln != Cln::Never);
    let first_found = found.first().copied().unwrap_or(q);
    let reported = std::fs::read_to_string(&err).map(|e| !crate::util::filter_errchan(&e).trim().is_empty()).unwrap_or(false);
    let (wf, wl) = (window_first.unwrap_or(q), window_last.unwrap_or(q));
    let what = format!("{:?}, file size limit 4096 active during operations {start}..{}{} (records {wf}..{wl} can be affected); surviving records {found:?}", cfg.mode, start + len, if until_shutdown { " and again from the end of the history until shutdown() had returned" } else { "" });
    let mut lost_any = false;
    for r in 0..q {
        if found.contains(&r) || (cleaned && r < first_found) {
            continue;
        }
        lost_any = true;
        if r < wf || r >= wl {
            return Err(("real-write-failure:record-lost-outside-the-failure-window".into(), format!("record {r} is missing; {what}")));
        }
    }
    if lost_any && !reported {
        return Err(("real-write-failure:loss-not-reported".into(), format!("records are missing and the error channel is empty; {what}")));
    }
    if !until_shutdown && (!found.contains(&tail_b) || (cfg.rot.is_some() && !tail_rotate_ok)) {
        return Err(("real-write-failure:no-recovery".into(), format!("after the limit was lifted: tail records {tail_a},{tail_b}, rotation ok = {tail_rotate_ok}; {what}")));
    }
    Ok((lost_any, format!("{:?}", cfg.mode)))
}

impl Property for P {
    type Case = Case;
    const ID: &'static str = "C19";
    const LEVEL: &'static str = "fault_enumeration";
    fn rule() -> String {
        "fault enumeration over proptest-generated histories: a history (writes, forced rotations, clock advances; all namings; Size/Age criteria; all cleanup strategies incl. compression, executed synchronously; Direct write mode; error channel = file) is first traced to get every hit of the fault-capable points {write, rotate.rename, open, cleanup.remove, gz.create, gz.open, gz.copy, gz.finish, gz.remove_original}; then EVERY single fault (each point at each occurrence - exhaustive for the history) and seed-chosen bursts of 2-5 consecutive hits of one point are injected (io::ErrorKind::Other or PermissionDenied) in a fresh run each; after the planned faults a fault-free tail (record, explicit rotation, record) follows. Oracle per faulted run: no panic; every line intact; records in order, none twice; a record may be missing only if its own write point was failed or a fault hit the initialisation of the writer during its call (or the cleanup limit removed it); every failed write/rename/open produced error-channel output (or an Err from trigger_rotation); the two tail records end up in two different files. Non-trivial = a fault that hit a rotation/cleanup/compress/open point (not only write) with a later successful rotation; evaluations = histories, sub_evaluations = faulted runs; distinct = distinct serialized history".into()
    }
    fn fixed_exhaustive_note() -> Option<String> {
        Some("for every generated history all single faults (point x occurrence) are injected exhaustively".into())
    }
    fn assumptions() -> Vec<String> {
        vec![
            "faults are injected at the hook points directly before the file-system call; NotFound is never injected for rename (tolerated by design)".into(),
            "Direct write mode only: with a user-space buffer a failing flush cannot be attributed to one record".into(),
            "an incomplete .gz next to its still existing plain original is not counted as content (plain wins)".into(),
        ]
    }
    fn cases(tier: Tier) -> u64 {
        match tier {
            Tier::Quick => 2_400,
            Tier::Thorough => 40_000,
        }
    }
    fn chunk(_t: Tier) -> u64 {
        10
    }
    fn worker_init() {
        // the real-write-failure scenario lowers RLIMIT_FSIZE for a while: writes beyond the
        // limit must fail with EFBIG instead of killing the process
        unsafe {
            libc::signal(libc::SIGXFSZ, libc::SIG_IGN);
        }
    }
    fn strategy(_tier: Tier) -> BoxedStrategy<Case> {
        let modes = prop_oneof![3 => Just(Mode::Direct), 1 => Just(Mode::SupportCapture)].boxed();
        (crate::mr::rot_cfg_strat(crate::mr::cleanup_strat(), modes), vinst_strat(), any::<u64>(), prop::bool::weighted(0.4))
            .prop_flat_map(|(mut cfg, t0, burst_seed, bg_cleanup)| {
                cfg.utc = false;
                cfg.bg_cleanup = bg_cleanup;
                let n = cfg.rot.as_ref().and_then(|r| r.crit.size());
                let ops = crate::hist::ops_strat(n, None, 1, true, 18);
                (Just(cfg), Just(t0), ops, Just(burst_seed))
            })
            .prop_map(|(cfg, t0, ops, burst_seed)| Case { tz: crate::vtime::tz_name(), cfg, t0, ops, burst_seed })
            .boxed()
    }

    fn run(case: &Case) -> Outcome {
        let mut out = run_inner(case);
        if crate::props::unsortable_format_with_cleanup(&case.cfg) {
            if let Some(f) = out.fail.take() {
                out.set_fail(crate::props::SIG_UNSORTABLE, format!("{}: {}", f.sig, f.msg));
            }
        }
        out
    }
}

fn run_inner(case: &Case) -> Outcome {
    {
        let mut out = Outcome::ok();
        let sc = Scratch::new("c19");
        out.class(case.cfg.nam().map_or("nam:none", |n| n.label()));
        // step 1: trace
        let base = match run_once(case, &sc, "trace", &BTreeMap::new()) {
            Ok(r) => r,
            Err((sig, msg)) => return Outcome::fail(sig, msg),
        };
        if let Err((sig, msg)) = check_run_x(case, &base, "fault-free run", true) {
            return Outcome::fail(format!("baseline:{sig}"), msg);
        }
        let hits: Vec<(String, u64)> = base.trace.iter().filter(|(n, _)| FAULT_POINTS.contains(&n.as_str())).cloned().collect();
        let mut plans: Vec<BTreeMap<(String, u64), std::io::ErrorKind>> = Vec::new();
        for (i, (n, o)) in hits.iter().enumerate() {
            let kind = if i % 2 == 0 { std::io::ErrorKind::Other } else { std::io::ErrorKind::PermissionDenied };
            plans.push([((n.clone(), *o), kind)].into_iter().collect());
        }
        // bursts: consecutive occurrences of one point
        let mut x = case.burst_seed;
        let per_point: BTreeMap<String, u64> = hits.iter().fold(BTreeMap::new(), |mut m, (n, o)| {
            let e = m.entry(n.clone()).or_insert(0);
            *e = (*e).max(*o + 1);
            m
        });
        for (n, cnt) in &per_point {
            if *cnt >= 2 {
                for _ in 0..2 {
                    x = crate::util::mix(x, 77);
                    let len = 2 + x % 4;
                    let start = (x >> 8) % *cnt;
                    let mut plan = BTreeMap::new();
                    for o in start..(start + len).min(*cnt) {
                        plan.insert((n.clone(), o), std::io::ErrorKind::Other);
                    }
                    if plan.len() >= 2 {
                        plans.push(plan);
                    }
                }
            }
        }
        let mut n = 0u64;
        let mut interesting = false;
        // Known finding KF-C19-1: with the background cleanup thread, a rotation whose open fails
        // after its rename leaves the writer on a file that carries a rotated name, and a cleanup
        // pass may compress or remove it under the writer. Whether that happens in an ordinary
        // run is up to the OS schedule, so plans with such a fault run with synchronous cleanup
        // (counted as avoided) and the directed schedule further down covers the region.
        let rename_style = case.cfg.nam().is_some_and(|n| n.rename_style());
        let cleans = case.cfg.rot.as_ref().is_some_and(|r| r.cln != Cln::Never);
        let race_region = case.cfg.bg_cleanup && rename_style && cleans;
        let mut sync_case = case.clone();
        sync_case.cfg.bg_cleanup = false;
        for (pi, plan) in plans.iter().enumerate() {
            n += 1;
            let what = format!("faults {:?}", plan.keys().collect::<Vec<_>>());
            let uncontrolled = race_region && plan.keys().any(|(n, o)| n == "open" && *o >= 1);
            if uncontrolled {
                out.avoided.push("background cleanup x failed open after rename, uncontrolled schedule (KF-C19-1)".into());
            }
            let case = if uncontrolled { &sync_case } else { case };
            let r = match run_once(case, &sc, &format!("f{pi}"), plan) {
                Ok(r) => r,
                Err((sig, msg)) => {
                    out.set_fail(sig, format!("{what}: {msg}"));
                    break;
                }
            };
            let cleanup_only = plan.keys().all(|(n, _)| n.starts_with("cleanup.") || n.starts_with("gz."));
            if let Err((sig, msg)) = check_run_x(case, &r, &what, cleanup_only) {
                let point = plan.keys().next().map(|(n, _)| n.clone()).unwrap_or_default();
                out.set_fail(format!("{sig}@{point}"), msg);
                break;
            }
            let _ = std::fs::remove_dir_all(sc.sub(&format!("f{pi}")));
            for (name, _) in plan.keys() {
                out.class(&format!("fault:{name}"));
                if name != "write" {
                    interesting = true;
                }
            }
            if plan.len() > 1 {
                out.class("burst");
            }
        }
        // directed schedule for the background cleanup thread: a rotation whose open fails after
        // its rename leaves the writer on a file that already has its rotated name
        if out.fail.is_none() && race_region {
            let opens: Vec<&(String, u64)> = hits.iter().filter(|(n, o)| n == "open" && *o >= 1).collect();
            for (ri, k) in opens.iter().take(2).enumerate() {
                n += 1;
                let plan: BTreeMap<(String, u64), std::io::ErrorKind> = [((*k).clone(), std::io::ErrorKind::Other)].into_iter().collect();
                let what = format!("faults {:?} with the background cleanup passes held back until one operation after the fault", plan.keys().collect::<Vec<_>>());
                match run_once_x(case, &sc, &format!("r{ri}"), &plan, true) {
                    Ok(r) => {
                        if let Err((sig, msg)) = check_run(case, &r, &what) {
                            out.set_fail(format!("{sig}@open+delayed-background-cleanup"), msg);
                            break;
                        }
                    }
                    Err((sig, msg)) => {
                        out.set_fail(sig, format!("{what}: {msg}"));
                        break;
                    }
                }
                let _ = std::fs::remove_dir_all(sc.sub(&format!("r{ri}")));
                out.class("fault:open+delayed-background-cleanup");
            }
        }
        if out.fail.is_none() {
            n += 1;
            match real_write_failure(case, &sc) {
                Ok((lost, mode)) => {
                    out.class("real-write-failure(EFBIG)");
                    if lost {
                        out.class("real-write-failure:records-lost-and-reported");
                    }
                    let _ = mode;
                }
                Err((sig, msg)) => out.set_fail(sig, msg),
            }
        }
        out.weight = n.max(1);
        if interesting {
            out.nontrivial = true;
        }
        if crate::props::unsortable_format_with_cleanup(&case.cfg) {
            if let Some(f) = out.fail.take() {
                out.set_fail(crate::props::SIG_UNSORTABLE, format!("{}: {}", f.sig, f.msg));
            }
        }
        out
    }
}
