//! C04 Flush, shutdown and handle drop leave no accepted record behind.
use crate::child::{read_case, run_child, write_case};
use crate::fscn::*;
use crate::hooks::h;
use crate::observe::{family, snapshot, stream_of};
use crate::runner::{Outcome, Property, Tier};
use crate::util::{diff_msg, lossy, payload, Scratch};
use crate::vtime::VInst;
use flexi_logger::writers::LogWriter;
use flexi_logger::{DeferredNow, ErrorChannel, LogSpecification, Logger};
use proptest::prelude::*;
use serde::{Deserialize, Serialize};
use std::path::Path;
use std::sync::{Arc, Mutex};
use std::time::Duration;

#[derive(Clone, Debug, Serialize, Deserialize, PartialEq, Eq)]
pub enum Out {
    File,
    Writer,
    /// log_to_file_and_writer: the file is /dev/full (every write(2) fails with ENOSPC, so every
    /// flush of a buffering mode fails), the writer is healthy: what is asserted is the writer
    WriterBesideFullDevice,
    /// a FileLogWriter registered with add_writer (records addressed to it with a brace target);
    /// such writers get a bare shutdown() from the handle, not "flush first" like the primary one
    AdditionalFile,
    Stdout,
    Stderr,
}

#[derive(Clone, Debug, Serialize, Deserialize)]
pub enum LOp {
    Write(usize),
    Flush,
    Rotate,
    /// clone the handle and drop the clone at once
    CloneDrop,
    Sleep(u64),
}

#[derive(Clone, Debug, Serialize, Deserialize, PartialEq, Eq)]
pub enum Terminal {
    Shutdown,
    DropLastHandle,
    Flush,
    /// after a burst of records, two threads call shutdown() on two clones of the handle at the
    /// same time; the observation follows the FIRST of the two calls that returns
    ShutdownTwice,
    /// the last two clones of the handle are dropped by two threads at the same time; the
    /// observation follows when both drops have returned (file output; the scenario is repeated
    /// with fresh loggers, because only few schedules let the two drops overlap)
    DropLastTwo,
    /// a second thread (source 2) logs continuously WHILE shutdown() runs; every record whose log
    /// call had returned before shutdown() was CALLED must be there when shutdown() has returned
    /// (records that complete during the call are not asserted: the property's "completed before"
    /// is read in the way that demands least)
    ShutdownWhileLogging,
}

#[derive(Clone, Debug, Serialize, Deserialize)]
pub struct Case {
    pub tz: String,
    pub out: Out,
    pub cfg: FileCfg,
    pub ops: Vec<LOp>,
    pub terminal: Terminal,
    /// a second thread logs continuously (source 1) while the history runs; after every flush()
    /// the first thread's records are looked for in the files at once
    #[serde(default)]
    pub concurrent: bool,
    /// (file output, harness built with its feature `watcher`) the logger is built with a
    /// specification file, i.e. flexi_logger's watcher thread holds a reference to the writers
    #[serde(default)]
    pub specfile: bool,
}

pub struct P;

/// custom writer that keeps records in memory until flush() or shutdown()
struct Buffering {
    pending: Mutex<Vec<String>>,
    committed: Arc<Mutex<Vec<String>>>,
}
impl LogWriter for Buffering {
    fn write(&self, _now: &mut DeferredNow, record: &log::Record) -> std::io::Result<()> {
        self.pending.lock().unwrap().push(record.args().to_string());
        Ok(())
    }
    fn flush(&self) -> std::io::Result<()> {
        let mut p = self.pending.lock().unwrap();
        self.committed.lock().unwrap().append(&mut p);
        Ok(())
    }
    fn shutdown(&self) {
        let _ = self.flush();
    }
}

fn base_logger(case: &Case) -> Logger {
    Logger::with(LogSpecification::trace())
        .format(raw_format)
        .write_mode(case.cfg.mode.to_flexi())
        .error_channel(ErrorChannel::DevNull)
        .panic_if_error_channel_is_broken(false)
}

struct Run {
    expected: Vec<String>,
    clone_drop_before_write: bool,
    pending_bytes: usize,
    flush_failure: Option<String>,
    /// ShutdownWhileLogging: number of records of source 2 acknowledged before shutdown() was called
    acked_before: Option<u32>,
    /// ShutdownWhileLogging: the second thread, still logging while the observation is made
    bg: Option<(std::sync::Arc<std::sync::atomic::AtomicBool>, std::thread::JoinHandle<()>)>,
}
impl Run {
    fn stop_bg(&mut self) {
        if let Some((s, j)) = self.bg.take() {
            s.store(true, std::sync::atomic::Ordering::SeqCst);
            let _ = j.join();
        }
    }
}

/// executes the ops and the terminal call; `observe` is called right after the terminal call
/// returned, while the (dropped or shut down) logger objects may still be alive
fn drive(case: &Case, log: Box<dyn log::Log>, handle: flexi_logger::LoggerHandle, after_flush: &mut dyn FnMut(&[String]) -> Result<(), String>) -> Run {
    drive_x(case, log, handle, after_flush, None)
}

/// size of the burst before a double shutdown (small where every record may rotate a file)
fn burst(case: &Case) -> u32 {
    if case.cfg.rot.is_some() && matches!(case.out, Out::File | Out::AdditionalFile) {
        80
    } else {
        1500
    }
}

fn ack_file(case_file: &Path) -> std::path::PathBuf {
    let mut s = case_file.as_os_str().to_owned();
    s.push(".ack");
    s.into()
}

/// `exit_file` (the case file): (child process) the thread whose terminal call returns first ends the process
fn drive_x(case: &Case, log: Box<dyn log::Log>, handle: flexi_logger::LoggerHandle, after_flush: &mut dyn FnMut(&[String]) -> Result<(), String>, exit_file: Option<&Path>) -> Run {
    let exit_after = exit_file.is_some();
    let target: &'static str = if case.out == Out::AdditionalFile { "{F}" } else { "flv" };
    let mut run = Run { expected: Vec::new(), clone_drop_before_write: false, pending_bytes: 0, flush_failure: None, acked_before: None, bg: None };
    let mut q = 0u32;
    let mut clone_dropped = false;
    let log: std::sync::Arc<dyn log::Log> = std::sync::Arc::from(log);
    let stop = std::sync::Arc::new(std::sync::atomic::AtomicBool::new(false));
    let bg = if case.concurrent {
        // widen the window in which the other thread holds the writer's lock
        {
            let hh = h();
            let mut ps = hh.points.lock().unwrap();
            ps.noise_seed = crate::util::fnv(serde_json::to_string(case).unwrap().as_bytes());
            ps.noise_points.insert("write".to_string());
            drop(ps);
            hh.set_mode(crate::hooks::MODE_NOISE);
        }
        let (l2, s2) = (log.clone(), stop.clone());
        Some(std::thread::spawn(move || {
            let mut i = 0u32;
            while !s2.load(std::sync::atomic::Ordering::SeqCst) {
                let p = payload(1, i, 20);
                i += 1;
                l2.log(&log::Record::builder().args(format_args!("{p}")).level(log::Level::Info).target(target).module_path(Some("flv")).build());
            }
        }))
    } else {
        None
    };
    for op in &case.ops {
        match op {
            LOp::Write(len) => {
                let p = payload(0, q, (*len).max(8));
                q += 1;
                log.log(&log::Record::builder().args(format_args!("{p}")).level(log::Level::Info).target(target).module_path(Some("flv")).build());
                run.pending_bytes += p.len() + 1;
                run.expected.push(p);
                if clone_dropped {
                    run.clone_drop_before_write = true;
                }
            }
            LOp::Flush => {
                handle.flush();
                if !case.cfg.mode.is_async() {
                    run.pending_bytes = 0;
                    if run.flush_failure.is_none() {
                        if let Err(e) = after_flush(&run.expected) {
                            run.flush_failure = Some(e);
                        }
                    }
                }
            }
            LOp::Rotate => {
                if !case.cfg.mode.is_async() {
                    let _ = handle.trigger_rotation();
                }
            }
            LOp::CloneDrop => {
                let c = handle.clone();
                drop(c);
                clone_dropped = true;
            }
            LOp::Sleep(ms) => std::thread::sleep(Duration::from_millis(*ms)),
        }
    }
    stop.store(true, std::sync::atomic::Ordering::SeqCst);
    if let Some(j) = bg {
        let _ = j.join();
    }
    h().set_mode(crate::hooks::MODE_OFF);
    match case.terminal {
        Terminal::Shutdown => {
            handle.shutdown();
            // keep the objects alive until the observation is done: only shutdown() counts
            std::mem::forget(handle);
            std::mem::forget(log);
        }
        Terminal::DropLastHandle => {
            drop(handle);
            std::mem::forget(log);
        }
        Terminal::Flush => {
            handle.flush();
            std::mem::forget(handle);
            std::mem::forget(log);
        }
        Terminal::DropLastTwo => {
            let h2 = handle.clone();
            let (tx, rx) = std::sync::mpsc::channel::<()>();
            let go = std::sync::Arc::new(std::sync::Barrier::new(2));
            for hd in [handle, h2] {
                let (tx, go) = (tx.clone(), go.clone());
                std::thread::spawn(move || {
                    go.wait();
                    drop(hd);
                    let _ = tx.send(());
                });
            }
            let _ = rx.recv();
            let _ = rx.recv();
            std::mem::forget(log);
        }
        Terminal::ShutdownWhileLogging => {
            use std::sync::atomic::{AtomicBool, AtomicU32, Ordering};
            let acked = std::sync::Arc::new(AtomicU32::new(0));
            let stop2 = std::sync::Arc::new(AtomicBool::new(false));
            let (l2, a2, s2) = (log.clone(), acked.clone(), stop2.clone());
            // bounded: with a rotating family every record may rotate (and list the directory); in
            // async mode an unbounded producer would leave shutdown() a backlog of minutes
            let max = if case.cfg.rot.is_some() && matches!(case.out, Out::File | Out::AdditionalFile) { 150u32 } else { 50_000 };
            let j = std::thread::spawn(move || {
                let mut i = 0u32;
                while !s2.load(Ordering::SeqCst) && i < max {
                    let p = payload(2, i, 20);
                    l2.log(&log::Record::builder().args(format_args!("{p}")).level(log::Level::Info).target(target).module_path(Some("flv")).build());
                    i += 1;
                    a2.store(i, Ordering::SeqCst);
                }
            });
            // let it get going (bounded wait; a slow start only makes the case less interesting)
            let t0 = std::time::Instant::now();
            while acked.load(Ordering::SeqCst) < 30 && t0.elapsed() < Duration::from_millis(500) {
                std::thread::yield_now();
            }
            let n0 = acked.load(Ordering::SeqCst);
            handle.shutdown();
            if exit_after {
                // child: the parent learns n0 from the side file; then end at once
                let _ = std::fs::write(ack_file(exit_file.unwrap()), n0.to_string());
                unsafe { libc::_exit(0) }
            }
            run.acked_before = Some(n0);
            run.bg = Some((stop2, j));
            std::mem::forget(handle);
            std::mem::forget(log);
        }
        Terminal::ShutdownTwice => {
            // a backlog for the writer thread / the buffer
            for _ in 0..burst(case) {
                let p = payload(0, q, 60);
                q += 1;
                log.log(&log::Record::builder().args(format_args!("{p}")).level(log::Level::Info).target(target).module_path(Some("flv")).build());
                run.pending_bytes += p.len() + 1;
                run.expected.push(p);
            }
            let h2 = handle.clone();
            let (tx, rx) = std::sync::mpsc::channel::<()>();
            let go = std::sync::Arc::new(std::sync::Barrier::new(2));
            for hd in [handle, h2] {
                let (tx, go) = (tx.clone(), go.clone());
                std::thread::spawn(move || {
                    go.wait();
                    hd.shutdown();
                    if exit_after {
                        unsafe { libc::_exit(0) }
                    }
                    let _ = tx.send(());
                    std::mem::forget(hd);
                });
            }
            let _ = rx.recv();
            std::mem::forget(log);
        }
    }
    run
}

/// `flv child c04 <case>`: stdout / stderr; exits right after the terminal call
pub fn child_main(file: &Path) -> ! {
    let case: Case = read_case(file);
    let l = base_logger(&case);
    let l = if case.out == Out::Stdout { l.log_to_stdout() } else { l.log_to_stderr() };
    let (log, handle) = match l.build() {
        Ok(x) => x,
        Err(e) => {
            eprintln!("CHILD-ERROR {e:?}");
            unsafe { libc::_exit(7) }
        }
    };
    let _ = drive_x(&case, log, handle, &mut |_| Ok(()), Some(file));
    // no flush of Rust's own stdout buffer, no destructors
    unsafe { libc::_exit(0) }
}

impl Property for P {
    type Case = Case;
    const ID: &'static str = "C04";
    const LEVEL: &'static str = "exploration";
    fn rule() -> String {
        "proptest-generated cases: write mode (Direct, SupportCapture, BufferDontFlush(cap), BufferAndFlush(cap, 1 ms / 60 s), Async{pool, message capacity, flush 0 / 1 ms / 60 s}) x output (file, file with size rotation under every naming, a custom writer that holds records until flush()/shutdown(), stdout, stderr) x history of Write(len) | flush | trigger_rotation | clone-and-drop of the handle | sleep, with record volumes below/at/above the buffer capacity x terminal call: shutdown(), drop of the last handle, or flush() (synchronous modes only - async flush is fire-and-forget and not promised). Oracle: what is read IMMEDIATELY (no sleep) after the terminal call returned - the files of the family in semantic order, the custom writer's committed list, or the pipe of a child that calls _exit(0) right after the terminal call - must be exactly the records whose log call had returned, in order; records logged after a clone of the handle was dropped must arrive as well. Non-trivial = at the terminal call at least one record was still buffered or queued (bytes since the last flush > 0 in a buffering or async mode), or a clone was dropped before a later write; distinct = distinct serialized case".into()
    }
    fn assumptions() -> Vec<String> {
        vec![
            "for stdout/stderr the child ends with _exit(0), so neither Rust's stdout buffer nor destructors can deliver late".into(),
            "forced rotations are not issued in async mode".into(),
        ]
    }
    fn replay_repeats() -> u32 {
        // the verdict can depend on the OS schedule (background threads)
        20
    }
    fn cases(tier: Tier) -> u64 {
        match tier {
            Tier::Quick => 15_000,
            Tier::Thorough => 500_000,
        }
    }
    fn chunk(_t: Tier) -> u64 {
        100
    }
    fn strategy(_tier: Tier) -> BoxedStrategy<Case> {
        let mode = prop_oneof![2 => sync_mode_strat(), 1 => async_mode_strat()];
        (
            prop_oneof![12 => Just(Out::File), 6 => Just(Out::Writer), 2 => Just(Out::Stdout), 2 => Just(Out::Stderr), 1 => Just(Out::WriterBesideFullDevice), 3 => Just(Out::AdditionalFile)],
            mode,
            prop::option::weighted(0.5, (prop_oneof![Just(30u64), Just(200u64), 10u64..400], naming_strat())),
            prop_oneof![3 => Just(Terminal::Shutdown), 3 => Just(Terminal::DropLastHandle), 2 => Just(Terminal::Flush), 1 => Just(Terminal::ShutdownTwice), 1 => Just(Terminal::DropLastTwo), 1 => Just(Terminal::ShutdownWhileLogging)],
            suffix_strat(),
            prop::bool::weighted(0.3),
            if cfg!(feature = "watcher") { prop::bool::weighted(0.04).boxed() } else { Just(false).boxed() },
        )
            .prop_flat_map(|(out, mode, rot, terminal, suffix, concurrent, specfile)| {
                let cap = mode.buffer_cap().filter(|c| *c < 4096).unwrap_or(40);
                let len = prop_oneof![8usize..30, Just(cap.saturating_sub(2).max(8)), Just(cap.max(8)), Just(cap + 1), Just(3 * cap + 7)];
                let op = prop_oneof![
                    12 => len.prop_map(LOp::Write),
                    2 => Just(LOp::Flush),
                    1 => Just(LOp::Rotate),
                    2 => Just(LOp::CloneDrop),
                    1 => prop_oneof![Just(1u64), Just(3u64)].prop_map(LOp::Sleep),
                ];
                (Just((out, mode, rot, terminal, suffix, concurrent, specfile)), prop::collection::vec(op, 1..25))
            })
            .prop_map(|((out, mode, rot, terminal, suffix, concurrent, specfile), ops)| {
                let mode = if matches!(out, Out::Stdout | Out::Stderr) {
                    match mode {
                        Mode::BufAndFlush(c, _) => Mode::BufDontFlush(c),
                        Mode::Async { pool, msg, .. } => Mode::Async { pool, msg, flush_ms: 0 },
                        m => m,
                    }
                } else {
                    mode
                };
                let terminal = if mode.is_async() && terminal == Terminal::Flush { Terminal::Shutdown } else { terminal };
                let terminal = if terminal == Terminal::DropLastTwo && (!matches!(out, Out::File | Out::AdditionalFile) || rot.is_some()) { Terminal::DropLastHandle } else { terminal };
                // without rotation: reading one file that only grows is an atomic enough observation while
                // the second thread keeps logging (a snapshot of a rotating family is not)
                let concurrent = concurrent && matches!(out, Out::File | Out::AdditionalFile) && !mode.is_async() && rot.is_none() && terminal != Terminal::DropLastTwo;
                let ops: Vec<LOp> = if terminal == Terminal::DropLastTwo { ops.into_iter().filter(|o| !matches!(o, LOp::Sleep(_))).take(6).collect() } else { ops };
                let rot = rot.map(|(n, nam)| {
                    let nam = match nam {
                        Nam::Custom { current, fmt } if current.as_deref().is_none_or(str::is_empty) => Nam::Custom { current: Some("cur".into()), fmt },
                        o => o,
                    };
                    Rot { crit: Crit::Size(n), nam, cln: Cln::Never }
                });
                let specfile = specfile && out == Out::File && terminal != Terminal::DropLastTwo;
                Case {
                    tz: crate::vtime::tz_name(),
                    out,
                    cfg: FileCfg { basename: Some("c04".into()), discr: None, suffix, start_ts: false, rot, mode, crlf: false, utc: false, symlink: false, bg_cleanup: false, via_logger: true, build_variant: 0 },
                    ops,
                    terminal,
                    concurrent,
                    specfile,
                }
            })
            .boxed()
    }

    fn run(case: &Case) -> Outcome {
        let mut out = Outcome::ok();
        out.class(case.cfg.mode.label());
        out.class(&format!("terminal:{:?}", case.terminal));
        let sc = Scratch::new("c04");
        h().set_time(Some(VInst::default_inst().to_ns()));
        let finish = |out: &mut Outcome, run: &Run, got: Vec<u8>| {
            let mut expected = Vec::new();
            for p in &run.expected {
                expected.extend_from_slice(p.as_bytes());
                expected.push(b'\n');
            }
            // the lines of the concurrent second thread are not part of the comparison
            let got: Vec<u8> = if case.concurrent {
                got.split_inclusive(|b| *b == b'\n').filter(|l| !l.starts_with(b"1:")).flatten().copied().collect()
            } else {
                got
            };
            // ShutdownWhileLogging: the records of source 2 acknowledged before the call form a prefix of
            // that source's lines; they are taken out of the comparison of source 0
            let got: Vec<u8> = if let Some(n0) = run.acked_before {
                let theirs: Vec<&[u8]> = got.split_inclusive(|b| *b == b'\n').filter(|l| l.starts_with(b"2:")).collect();
                out.class(if n0 > 0 { "second-thread-logging-during-shutdown" } else { "second-thread-not-started" });
                for i in 0..n0 {
                    let mut want = payload(2, i, 20).into_bytes();
                    want.push(b'\n');
                    if theirs.get(i as usize).copied() != Some(&want[..]) {
                        out.set_fail(
                            "records-missing-after-shutdown-while-logging",
                            format!(
                                "{:?}, {:?}: the second thread had {} log calls returned before shutdown() was called; right after shutdown() returned the output holds {} of its lines, line {} is {:?}",
                                case.out,
                                case.cfg.mode,
                                n0,
                                theirs.len(),
                                i,
                                theirs.get(i as usize).map(|l| lossy(l))
                            ),
                        );
                        break;
                    }
                }
                // (a last fragment without line ending is the second thread's record being written
                // while the file is read)
                got.split_inclusive(|b| *b == b'\n').filter(|l| !l.starts_with(b"2:") && !(l.starts_with(b"2") && !l.ends_with(b"\n"))).flatten().copied().collect()
            } else {
                got
            };
            if let Some(e) = &run.flush_failure {
                out.set_fail("records-missing-after-flush", e.clone());
            }
            if got != expected {
                let sig = if run.clone_drop_before_write { "records-missing-after-clone-drop" } else { "records-missing-after-terminal-call" };
                out.set_fail(sig, format!("after {:?} ({:?}, {:?}): {}", case.terminal, case.out, case.cfg.mode, diff_msg(&expected, &got)));
            }
            let buffering = case.cfg.mode.is_async() || case.cfg.mode.buffer_cap().is_some() || matches!(case.out, Out::Writer | Out::WriterBesideFullDevice);
            if run.clone_drop_before_write {
                out.class("clone-dropped-before-write");
            }
            if case.concurrent {
                out.class("concurrent-second-thread");
            }
            if run.pending_bytes > 0 && buffering {
                out.class("buffered-at-terminal-call");
            }
            if (run.pending_bytes > 0 && buffering) || run.clone_drop_before_write || run.acked_before.is_some_and(|n| n > 0) {
                out.nontrivial = true;
            }
        };
        match case.out {
            Out::File | Out::AdditionalFile => {
                out.class(if case.cfg.rot.is_some() { "out:file+rotation" } else { "out:file" });
                if case.out == Out::AdditionalFile {
                    out.class("out:additional-file-writer");
                }
                let reps = if case.terminal == Terminal::DropLastTwo { 60 } else { 1 };
                for rep in 0..reps {
                if out.fail.is_some() {
                    break;
                }
                let dir = sc.sub(&format!("logs{rep}"));
                let mut l = if case.out == Out::AdditionalFile {
                    let w = match flw_builder(&case.cfg, &dir, false, None).try_build() {
                        Ok(w) => w,
                        Err(e) => return Outcome::fail("build-failed", format!("{e:?}")),
                    };
                    let sink = Buffering { pending: Mutex::new(Vec::new()), committed: Arc::new(Mutex::new(Vec::new())) };
                    base_logger(case).log_to_writer(Box::new(sink)).add_writer("F", Box::new(w))
                } else {
                    base_logger(case).log_to_file(case.cfg.file_spec(&dir))
                };
                if let (Some(r), true) = (&case.cfg.rot, case.out == Out::File) {
                    l = l.rotate(r.crit.to_flexi(), r.nam.to_flexi(), r.cln.to_flexi());
                }
                let built = if case.specfile { l.build_with_specfile(sc.sub(&format!("spec{rep}/logspec.toml"))) } else { l.build() };
                let (log, handle) = match built {
                    Ok(x) => x,
                    Err(e) if case.specfile && format!("{e:?}").contains("Too many open files") => {
                        // inotify instances are a per-user resource (128): not this property's subject
                        out.class("inotify-exhausted");
                        return out;
                    }
                    Err(e) => return Outcome::fail("build-failed", format!("{e:?}")),
                };
                if case.specfile {
                    out.class("built-with-specfile");
                }
                let cfg = case.cfg.clone();
                let dir2 = dir.clone();
                let mut run = drive(case, log, handle, &mut |expected_so_far: &[String]| {
                    // right after flush() returned: every record of this thread is in the files
                    let snap = snapshot(&dir2);
                    let fam = family(&cfg, &snap)?;
                    let bytes = stream_of(&fam);
                    let mine: Vec<String> = String::from_utf8_lossy(&bytes).lines().filter(|l| l.starts_with("0:")).map(str::to_string).collect();
                    if mine != expected_so_far {
                        return Err(format!(
                            "right after flush() returned, the files hold {} of the {} records this thread had logged (first missing: {:?})",
                            mine.len(),
                            expected_so_far.len(),
                            expected_so_far.iter().find(|e| !mine.contains(e))
                        ));
                    }
                    Ok(())
                });
                // immediately: no sleep between the terminal call and the observation (a second thread
                // that is still logging is stopped first if the family rotates: a snapshot of a
                // rotating family is no atomic observation)
                if case.cfg.rot.is_some() {
                    run.stop_bg();
                }
                let snap = snapshot(&dir);
                run.stop_bg();
                let fam = match family(&case.cfg, &snap) {
                    Ok(f) => f,
                    Err(e) => return Outcome::fail("family-illformed", e),
                };
                finish(&mut out, &run, stream_of(&fam));
                let _ = std::fs::remove_dir_all(&dir);
                }
            }
            Out::Writer => {
                out.class("out:buffering-writer");
                let committed = Arc::new(Mutex::new(Vec::new()));
                let w = Buffering { pending: Mutex::new(Vec::new()), committed: committed.clone() };
                let (log, handle) = match base_logger(case).log_to_writer(Box::new(w)).build() {
                    Ok(x) => x,
                    Err(e) => return Outcome::fail("build-failed", format!("{e:?}")),
                };
                let mut run = drive(case, log, handle, &mut |_| Ok(()));
                let got: Vec<u8> = committed.lock().unwrap().iter().flat_map(|s| {
                    let mut b = s.clone().into_bytes();
                    b.push(b'\n');
                    b
                }).collect();
                run.stop_bg();
                finish(&mut out, &run, got);
            }
            Out::WriterBesideFullDevice => {
                out.class("out:writer-beside-failing-file");
                let committed = Arc::new(Mutex::new(Vec::new()));
                let w = Buffering { pending: Mutex::new(Vec::new()), committed: committed.clone() };
                let spec = match flexi_logger::FileSpec::try_from("/dev/full") {
                    Ok(s) => s,
                    Err(e) => return Outcome::fail("build-failed", format!("{e:?}")),
                };
                let (log, handle) = match base_logger(case).log_to_file_and_writer(spec, Box::new(w)).build() {
                    Ok(x) => x,
                    Err(e) => return Outcome::fail("build-failed", format!("{e:?}")),
                };
                let c2 = committed.clone();
                let mut run = drive(case, log, handle, &mut |expected_so_far: &[String]| {
                    let got = c2.lock().unwrap().clone();
                    let mine: Vec<String> = got.into_iter().filter(|l| l.starts_with("0:")).collect();
                    if mine != expected_so_far {
                        return Err(format!(
                            "right after flush() returned, the (healthy) writer beside the failing file has committed {} of the {} records this thread had logged",
                            mine.len(),
                            expected_so_far.len()
                        ));
                    }
                    Ok(())
                });
                let got: Vec<u8> = committed.lock().unwrap().iter().flat_map(|s| {
                    let mut b = s.clone().into_bytes();
                    b.push(b'\n');
                    b
                }).collect();
                run.stop_bg();
                finish(&mut out, &run, got);
            }
            Out::Stdout | Out::Stderr => {
                out.class(if case.out == Out::Stdout { "out:stdout" } else { "out:stderr" });
                let cf = sc.sub("case.json");
                write_case(&cf, case);
                let co = run_child("c04", &cf, "UTC", Duration::from_secs(30));
                if co.timed_out || co.code != Some(0) {
                    return Outcome::fail("child-failed", format!("exit {:?} signal {:?} timed_out {}: {}", co.code, co.signal, co.timed_out, lossy(&co.stderr)));
                }
                // expected: recompute from the ops
                let mut run = Run { expected: Vec::new(), clone_drop_before_write: false, pending_bytes: 0, flush_failure: None, acked_before: None, bg: None };
                let mut q = 0;
                let mut cd = false;
                for op in &case.ops {
                    match op {
                        LOp::Write(len) => {
                            run.expected.push(payload(0, q, (*len).max(8)));
                            q += 1;
                            run.pending_bytes += len + 1;
                            if cd {
                                run.clone_drop_before_write = true;
                            }
                        }
                        LOp::Flush => {
                            if !case.cfg.mode.is_async() {
                                run.pending_bytes = 0;
                            }
                        }
                        LOp::CloneDrop => cd = true,
                        _ => {}
                    }
                }
                if case.terminal == Terminal::ShutdownTwice {
                    for _ in 0..burst(case) {
                        run.expected.push(payload(0, q, 60));
                        q += 1;
                        run.pending_bytes += 61;
                    }
                }
                if case.terminal == Terminal::ShutdownWhileLogging {
                    match std::fs::read_to_string(ack_file(&cf)).ok().and_then(|s| s.trim().parse::<u32>().ok()) {
                        Some(n0) => run.acked_before = Some(n0),
                        None => return Outcome::fail("child-failed", "no acknowledgement file from the child".to_string()),
                    }
                }
                let got = if case.out == Out::Stdout { co.stdout } else { co.stderr };
                finish(&mut out, &run, got);
            }
        }
        out
    }
}
