//! C17 Specification text forms round-trip; parsing reports exactly the malformed parts.
use crate::runner::{Outcome, Property, Tier};
use crate::spec::*;
use crate::util::Scratch;
use flexi_logger::{ErrorChannel, FlexiLoggerError, LogSpecification, Logger};
use proptest::prelude::*;
use serde::{Deserialize, Serialize};

#[derive(Clone, Debug, Serialize, Deserialize)]
pub enum Case {
    RoundTrip { spec: MSpec, by_parse: bool, specfile: bool },
    Text(String),
    Toml(String),
}

pub struct P;

fn rust_path_name() -> BoxedStrategy<String> {
    let seg = prop_oneof![
        4 => "[A-Za-z_][A-Za-z0-9_]{0,5}",
        1 => Just("info".to_string()),
        1 => Just("warn".to_string()),
        1 => Just("off".to_string()),
        1 => Just("Trace".to_string()),
        1 => Just("a".to_string()),
        1 => Just("ab".to_string()),
    ];
    prop::collection::vec(seg, 1..4).prop_map(|v| v.join("::")).boxed()
}

fn rt_spec() -> BoxedStrategy<MSpec> {
    (
        prop::collection::vec((rust_path_name(), prop::option::weighted(0.5, (any::<prop::sample::Index>(), "[a-z_0-9]{1,3}")), 0u8..6), 0..6),
        prop::option::weighted(0.6, 0u8..6),
    )
        .prop_map(|(mods, default)| {
            let mut filters: Vec<(Option<String>, u8)> = Vec::new();
            for (free, ext, level) in mods {
                let name = match ext {
                    Some((idx, tail)) if !filters.is_empty() => {
                        let base = filters[idx.index(filters.len())].0.clone().unwrap_or_default();
                        if tail.len() % 2 == 0 { format!("{base}::{tail}") } else { format!("{base}{tail}") }
                    }
                    _ => free,
                };
                if !filters.iter().any(|(n, _)| n.as_deref() == Some(name.as_str())) {
                    filters.push((Some(name), level));
                }
            }
            if let Some(d) = default {
                filters.push((None, d));
            }
            MSpec { filters, regex: None }
        })
        .boxed()
}

/// strings over the specification alphabet
fn alphabet_string() -> BoxedStrategy<String> {
    let tok = prop_oneof![
        3 => Just("a".to_string()), 2 => Just("a::b".to_string()), 1 => Just("ab".to_string()),
        3 => Just("=".to_string()), 4 => Just(",".to_string()), 1 => Just("/".to_string()),
        2 => Just(" ".to_string()), 1 => Just("\t".to_string()),
        1 => Just("info".to_string()), 1 => Just("WARN".to_string()), 1 => Just("Off".to_string()), 1 => Just("trace".to_string()),
        1 => Just("debug".to_string()), 1 => Just("error".to_string()),
        1 => Just("7".to_string()), 1 => Just("x1".to_string()), 1 => Just("(".to_string()), 1 => Just("\u{a0}".to_string()),
    ];
    prop::collection::vec(tok, 0..14).prop_map(|v| v.concat()).boxed()
}

fn grid_decisions(f: &dyn Fn(u8, &str) -> bool, targets: &[String]) -> Vec<bool> {
    let mut v = Vec::new();
    for t in targets {
        for l in 1..=5u8 {
            v.push(f(l, t));
        }
    }
    v
}

fn first_diff(a: &[bool], b: &[bool], targets: &[String]) -> String {
    for (i, (x, y)) in a.iter().zip(b.iter()).enumerate() {
        if x != y {
            return format!("level {} target {:?}: {x} vs {y}", i % 5 + 1, targets[i / 5]);
        }
    }
    "same".into()
}

impl Property for P {
    type Case = Case;
    const ID: &'static str = "C17";
    const LEVEL: &'static str = "exploration";
    fn rule() -> String {
        "three generated domains: (a) specifications over Rust-path-like module names (incl. level words, prefix-related names, all levels incl. off, optional default), built by LogSpecBuilder or parse: Display->parse, to_toml->from_toml and (20%) the specfile path (build_with_specfile writes, a second logger reads) must decide identically to the original and to the reference matcher on the full level x target grid; (b) strings over the spec alphabet (names, '=', ',', '/', blanks, tabs, level words in any case, numbers, NBSP) incl. rendered specs with one malformed part appended/prepended; (c) arbitrary Unicode strings: parse never panics, Err <=> reference parser says malformed, and the spec carried by Err (or Ok) decides identically to the reference parser's salvaged filters on the grid (nothing salvaged if the '/' structure is broken); arbitrary strings also go to from_toml (no panic). Non-trivial = (a) >= 3 filters with a prefix pair or a level-word name, (b,c) input with >= 1 well-formed and >= 1 malformed part; distinct = distinct serialized case".into()
    }
    fn assumptions() -> Vec<String> {
        vec![
            "inputs with an empty module name, more than one default level or a repeated module are checked for no-panic and Err<=>malformed only; their decisions are not compared (undefined by the documented grammar)".into(),
            "the regex filter is not carried by Display/TOML (stated in the property) and is left out of round trips".into(),
        ]
    }
    fn cases(tier: Tier) -> u64 {
        match tier {
            Tier::Quick => 600_000,
            Tier::Thorough => 10_000_000,
        }
    }
    fn chunk(_t: Tier) -> u64 {
        2_000
    }
    fn strategy(_tier: Tier) -> BoxedStrategy<Case> {
        prop_oneof![
            4 => (rt_spec(), any::<bool>(), prop::bool::weighted(0.2)).prop_map(|(spec, by_parse, specfile)| Case::RoundTrip { spec, by_parse, specfile }),
            2 => alphabet_string().prop_map(Case::Text),
            2 => malformed_string().prop_map(Case::Text),
            1 => wellformed_string().prop_map(|(t, _)| Case::Text(t)),
            1 => any::<String>().prop_map(Case::Text),
            1 => "\\PC{0,20}".prop_map(Case::Text),
            1 => prop_oneof![any::<String>(), alphabet_string(), Just("global_level = 'info'\n[modules]\n'a' = 'wrong'".to_string()), Just("global_level = 'info'\nglobal_pattern = '('\n".to_string())].prop_map(Case::Toml),
        ]
        .boxed()
    }

    fn run(case: &Case) -> Outcome {
        let mut out = Outcome::ok();
        match case {
            Case::RoundTrip { spec, by_parse, specfile } => {
                out.class("round-trip");
                let s = if *by_parse {
                    match spec.build_by_parse() {
                        Ok(s) => s,
                        Err(e) => return Outcome::fail("wellformed-rejected", format!("parse({:?}) failed: {e}", spec.render())),
                    }
                } else {
                    spec.build_with_builder()
                };
                let names = spec.names();
                let targets = grid_targets(&names);
                let want = grid_decisions(&|l, t| spec.enabled(l, t), &targets);
                let orig = grid_decisions(&|l, t| s.enabled(lvl(l), t), &targets);
                if orig != want {
                    return Outcome::fail("spec-decides-differently-from-model", format!("{}: {}", spec.render(), first_diff(&orig, &want, &targets)));
                }
                // Display -> parse
                let text = s.to_string();
                match LogSpecification::parse(&text) {
                    Ok(s2) => {
                        let d = grid_decisions(&|l, t| s2.enabled(lvl(l), t), &targets);
                        if d != want {
                            return Outcome::fail("display-roundtrip-differs", format!("Display form {text:?} of {} parses to a spec that decides differently: {}", spec.render(), first_diff(&d, &want, &targets)));
                        }
                    }
                    Err(e) => return Outcome::fail("display-roundtrip-rejected", format!("Display form {text:?} does not parse: {e:?}")),
                }
                // TOML
                let mut buf = Vec::new();
                if let Err(e) = s.to_toml(&mut buf) {
                    return Outcome::fail("to-toml-failed", format!("{e:?}"));
                }
                let toml_text = String::from_utf8_lossy(&buf).to_string();
                match LogSpecification::from_toml(&toml_text) {
                    Ok(s3) => {
                        let d = grid_decisions(&|l, t| s3.enabled(lvl(l), t), &targets);
                        if d != want {
                            return Outcome::fail("toml-roundtrip-differs", format!("TOML form of {} decides differently: {}; toml: {toml_text:?}", spec.render(), first_diff(&d, &want, &targets)));
                        }
                    }
                    Err(e) => return Outcome::fail("toml-roundtrip-rejected", format!("TOML form does not parse: {e:?}; toml: {toml_text:?}")),
                }
                if *specfile {
                    out.class("specfile-path");
                    let sc = Scratch::new("c17");
                    let path = sc.sub("spec/logspec.toml");
                    let mk = |sp: LogSpecification| {
                        let (w, _r) = Recorder::new(5);
                        Logger::with(sp)
                            .log_to_writer(Box::new(w))
                            .error_channel(ErrorChannel::DevNull)
                            .panic_if_error_channel_is_broken(false)
                            .build_with_specfile(&path)
                    };
                    let first = match mk(s.clone()) {
                        Ok(x) => x,
                        Err(e) => return Outcome::fail("specfile-write-failed", format!("{e:?}")),
                    };
                    let second = match mk(LogSpecification::off()) {
                        Ok(x) => x,
                        Err(e) => return Outcome::fail("specfile-read-failed", format!("{e:?}; file: {:?}", std::fs::read_to_string(&path))),
                    };
                    let d = grid_decisions(
                        &|l, t| second.0.enabled(&log::Metadata::builder().level(lvl(l)).target(t).build()),
                        &targets,
                    );
                    first.1.shutdown();
                    second.1.shutdown();
                    if d != want {
                        return Outcome::fail("specfile-roundtrip-differs", format!("logger started from the written specfile decides differently: {}; file {:?}", first_diff(&d, &want, &targets), std::fs::read_to_string(&path)));
                    }
                }
                let prefix_pair = names.iter().any(|a| names.iter().any(|c| a != c && c.starts_with(a.as_str())));
                let level_word = names.iter().any(|n| parse_level_pub(n).is_some());
                if prefix_pair {
                    out.class("prefix-pair");
                }
                if level_word {
                    out.class("name-is-level-word");
                }
                if spec.filters.len() >= 3 && (prefix_pair || level_word) {
                    out.nontrivial = true;
                }
            }
            Case::Text(text) => {
                out.class("parse-text");
                let rp = ref_parse(text);
                let r = LogSpecification::parse(text);
                let (is_err, carried) = match r {
                    Ok(s) => (false, s),
                    Err(FlexiLoggerError::Parse(_, s)) => (true, s),
                    Err(e) => return Outcome::fail("parse-unexpected-error-kind", format!("parse({text:?}) returned {e:?}")),
                };
                if is_err != rp.malformed {
                    return Outcome::fail(
                        if is_err { "wellformed-rejected" } else { "malformed-accepted" },
                        format!("parse({text:?}) returned {}, reference parser says malformed={}", if is_err { "Err" } else { "Ok" }, rp.malformed),
                    );
                }
                if rp.undefined {
                    out.class("undefined-by-grammar");
                } else {
                    let targets = grid_targets(&rp.spec.names());
                    let want = grid_decisions(&|l, t| rp.spec.enabled(l, t), &targets);
                    let got = grid_decisions(&|l, t| carried.enabled(lvl(l), t), &targets);
                    if got != want {
                        return Outcome::fail(
                            if is_err { "salvaged-spec-differs" } else { "parsed-spec-differs" },
                            format!("parse({text:?}): carried spec {carried:?} decides differently from the well-formed parts {}: {}", rp.spec.render(), first_diff(&got, &want, &targets)),
                        );
                    }
                    let has_regex = carried.text_filter().is_some();
                    if has_regex != rp.spec.regex.is_some() {
                        return Outcome::fail("regex-presence-differs", format!("parse({text:?}): text filter present={has_regex}, reference {:?}", rp.spec.regex));
                    }
                    if rp.malformed && !rp.spec.filters.is_empty() {
                        out.nontrivial = true;
                        out.class("mixed-wellformed-malformed");
                    }
                }
                if rp.malformed {
                    out.class("malformed");
                }
            }
            Case::Toml(text) => {
                out.class("from-toml-text");
                let _ = LogSpecification::from_toml(text);
            }
        }
        out
    }
}
