//! C11 A killed process loses no acknowledged direct-mode record and restarts cleanly.
use crate::child::{read_case, run_child, write_case};
use crate::fscn::*;
use crate::hist::Op;
use crate::hooks::{h, MODE_KILL, MODE_TRACE};
use crate::observe::{classify, family, snapshot, FamFile, Kind};
use crate::runner::{Outcome, Property, Tier};
use crate::util::{lossy, payload, Scratch};
use crate::vtime::{vinst_strat, VInst, MS};
use proptest::prelude::*;
use serde::{Deserialize, Serialize};
use std::collections::{BTreeMap, BTreeSet};
use std::path::{Path, PathBuf};
use std::time::Duration;

#[derive(Clone, Debug, Serialize, Deserialize)]
pub struct Case {
    pub tz: String,
    pub cfg: FileCfg,
    pub t0: VInst,
    pub ops: Vec<Op>,
    pub restart_append: bool,
    pub pick_seed: u64,
    /// how many (point, occurrence) pairs to kill at (0 = all)
    pub max_kills: usize,
    /// the restarted logger logs a single record only (no rotation after the restart, so that
    /// the state right after its initialisation is what gets observed)
    #[serde(default)]
    pub restart_short: bool,
}

#[derive(Clone, Debug, Serialize, Deserialize)]
pub enum Phase {
    Trace,
    Kill { point: String, occ: u64 },
    Restart { append: bool, first_q: u32 },
}

#[derive(Clone, Debug, Serialize, Deserialize)]
pub struct ChildJob {
    pub case: Case,
    pub phase: Phase,
    pub dir: PathBuf,
    pub ack: PathBuf,
    pub err: PathBuf,
    pub trace_out: PathBuf,
    pub link: PathBuf,
}

pub struct P;

struct DumpOnFail(String, std::cell::Cell<bool>);
impl Drop for DumpOnFail {
    fn drop(&mut self) {
        if (self.1.get() && std::env::var("FLV_DEBUG").is_ok()) || std::env::var("FLV_DEBUG_ALL").is_ok() {
            eprintln!("{}", self.0);
        }
    }
}

fn rec_len(len: usize) -> usize {
    len.max(8)
}

/// `flv child c11 <job>`
pub fn child_main(file: &Path) -> ! {
    use std::io::Write;
    use std::os::unix::io::AsRawFd;
    let job: ChildJob = read_case(file);
    let case = &job.case;
    let hh = h();
    let ack = std::fs::OpenOptions::new().create(true).append(true).open(&job.ack).expect("ack file");
    let ack_fd = ack.as_raw_fd();
    let ack_one = |q: u32| {
        let s = format!("{q}\n");
        unsafe {
            libc::write(ack_fd, s.as_ptr().cast(), s.len());
        }
    };
    let (append, first_q, ops): (bool, u32, Vec<Op>) = match &job.phase {
        Phase::Trace => {
            hh.set_time(Some(case.t0.to_ns()));
            hh.set_mode(MODE_TRACE);
            (false, 0, case.ops.clone())
        }
        Phase::Kill { point, occ } => {
            hh.set_time(Some(case.t0.to_ns()));
            hh.points.lock().unwrap().kill = Some((point.clone(), *occ));
            hh.set_mode(MODE_KILL);
            (false, 0, case.ops.clone())
        }
        Phase::Restart { append, first_q } => {
            // one day (and 5 s) after the end of the killed run's virtual time
            let advanced: i64 = case.ops.iter().map(|o| if let Op::Advance(ms) = o { *ms } else { 0 }).sum();
            hh.set_time(Some(case.t0.to_ns() + (advanced + 86_400_000 + 5_000) * MS));
            (*append, *first_q, if case.restart_short { vec![Op::Write(9)] } else { vec![Op::Write(9), Op::Write(10), Op::Rotate, Op::Write(11)] })
        }
    };
    let sess = match Sess::start(&case.cfg, &job.dir, append, Some(&job.err), case.cfg.symlink.then_some(job.link.as_path())) {
        Ok(s) => s,
        Err(e) => {
            eprintln!("CHILD-ERROR start: {e}");
            crate::child::exit_now(7)
        }
    };
    let mut q = first_q;
    for op in &ops {
        if std::env::var("FLV_DEBUG").is_ok() {
            eprintln!("[child {:?}] before {op:?}: {}", job.phase, crate::hist::dir_listing(&job.dir));
        }
        match op {
            Op::Write(len) => {
                sess.write(&payload(0, q, rec_len(*len)));
                ack_one(q);
                q += 1;
            }
            Op::Rotate => {
                if let Err(e) = sess.rotate() {
                    eprintln!("CHILD-ERROR rotate: {e}");
                    crate::child::exit_now(8);
                }
            }
            Op::Flush => sess.flush(),
            Op::Advance(ms) => hh.advance(*ms * MS),
            Op::FailWrite(_) => {} // not generated for this property (faults come from its own enumeration)
            Op::MoveAwayAndReopen | Op::MoveAwayRecreateAndReopen | Op::Reopen | Op::ResetSame => {}
        }
    }
    sess.shutdown();
    if std::env::var("FLV_DEBUG").is_ok() {
        eprintln!("[child {:?}] after shutdown: {}", job.phase, crate::hist::dir_listing(&job.dir));
    }
    if matches!(job.phase, Phase::Trace) {
        let t: Vec<(String, u64)> = hh.take_trace().into_iter().map(|(n, o, _)| (n.to_string(), o)).collect();
        let mut f = std::fs::File::create(&job.trace_out).expect("trace out");
        let _ = f.write_all(&serde_json::to_vec(&t).unwrap());
    }
    crate::child::exit_now(0)
}

struct Parsed {
    records: Vec<u32>,
    fam: Vec<FamFile>,
}

fn read_dir_records(cfg: &FileCfg, dir: &Path, lens: &dyn Fn(u32) -> usize, allow_torn_tail: bool) -> Result<Parsed, (String, String)> {
    let snap = snapshot(dir);
    let stray: Vec<String> = snap.iter().filter(|e| classify(cfg, &e.name).is_none()).map(|e| e.name.clone()).collect();
    if !stray.is_empty() {
        return Err(("stray-file".into(), format!("entries outside the naming pattern: {stray:?}")));
    }
    // a chunk present both plain and compressed counts once, plain wins
    let names: BTreeSet<String> = snap.iter().map(|e| e.name.clone()).collect();
    let snap2: Vec<_> = snap.into_iter().filter(|e| !(e.name.ends_with(".gz") && names.contains(e.name.trim_end_matches(".gz")))).collect();
    let fam = family(cfg, &snap2).map_err(|e| ("compressed-file-without-plain-twin-is-corrupt".to_string(), e))?;
    let le = cfg.line_ending();
    let mut records = Vec::new();
    let nfiles = fam.len();
    for (fi, f) in fam.iter().enumerate() {
        let mut rest: &[u8] = &f.content;
        while !rest.is_empty() {
            let Some(pos) = (0..rest.len()).find(|i| rest[*i..].starts_with(le)) else {
                if allow_torn_tail && fi + 1 == nfiles {
                    break;
                }
                return Err(("torn-line".into(), format!("file {} holds an unterminated line {:?}", f.name, lossy(rest))));
            };
            let line = String::from_utf8_lossy(&rest[..pos]).to_string();
            rest = &rest[pos + le.len()..];
            let qn: Option<u32> = line.split(':').nth(1).and_then(|x| x.parse().ok());
            match qn {
                Some(qn) if payload(0, qn, lens(qn)) == line => records.push(qn),
                _ => return Err(("torn-line".into(), format!("file {} holds a line that is no intact record: {line:?}", f.name))),
            }
        }
    }
    Ok(Parsed { records, fam })
}

impl Property for P {
    type Case = Case;
    const ID: &'static str = "C11";
    const LEVEL: &'static str = "fault_enumeration";
    fn rule() -> String {
        "crash-point enumeration over proptest-generated histories: a history of 8-30 writes and forced rotations (Direct write mode, size limits that force rotations, all namings, all cleanup strategies incl. compression executed in the logging thread or the background thread, symlink on/off) is first run in a child process with the tracing handler; then for (point, occurrence) pairs of the trace - all pairs for histories with at most 40 hits, otherwise a seed-chosen subset that always contains the first and last occurrence of every point name - a fresh child runs the history and kills itself with SIGKILL (no destructors, no flush) exactly at that hit; points sit before and after every file-system effect of writing, rotating (rename, create), symlink replacement, cleanup (each removal) and compression (create .gz, open, copy, finish, remove original). The child acknowledges each returned log call with one write(2) to an ack file. Oracle after the kill: all lines intact, records in order, none twice (a chunk present both plain and .gz counts once), every acknowledged record present unless the cleanup limit removed it (older than every survivor), at most one unacknowledged record extra. Then a second child starts a logger on the same directory (append on/off), logs records with a rotation in between and must exit 0 with an empty error channel; afterwards the stream must be the surviving old records followed by the new ones, no old record that survived the kill may be lost unless the cleanup limits are exhausted, and the limits hold. Non-trivial = the kill landed inside a rotation/cleanup/compression/symlink window (not at a write point); evaluations = histories, sub_evaluations = kill+restart experiments; distinct = distinct serialized history".into()
    }
    fn fixed_exhaustive_note() -> Option<String> {
        Some("for histories with at most 40 point hits every (point, occurrence) pair is killed at".into())
    }
    fn assumptions() -> Vec<String> {
        vec![
            "kills happen at hook points between file-system calls (SIGKILL raised by the process on itself); torn pages after power loss are outside the property".into(),
            "for background cleanup the trace of the cleanup thread depends on the schedule; a planned hit that is not reached means the child simply finishes (counted as 'not reached')".into(),
        ]
    }
    fn replay_repeats() -> u32 {
        // the verdict can depend on the OS schedule (background threads)
        4
    }
    fn cases(tier: Tier) -> u64 {
        match tier {
            Tier::Quick => 240,
            Tier::Thorough => 6_000,
        }
    }
    fn chunk(_t: Tier) -> u64 {
        3
    }
    fn case_timeout() -> Duration {
        Duration::from_secs(300)
    }
    fn strategy(tier: Tier) -> BoxedStrategy<Case> {
        let modes = Just(Mode::Direct).boxed();
        let max_kills = if tier == Tier::Thorough { 60 } else { 40 };
        (crate::mr::rot_cfg_strat(crate::mr::cleanup_strat(), modes), vinst_strat(), any::<bool>(), any::<bool>(), any::<bool>(), any::<u64>(), any::<bool>())
            .prop_flat_map(move |(mut cfg, t0, bg, symlink, restart_append, pick_seed, restart_short)| {
                cfg.utc = false;
                cfg.via_logger = false;
                cfg.bg_cleanup = bg;
                cfg.symlink = symlink;
                // size limits that force rotations
                if let Some(r) = &mut cfg.rot {
                    r.crit = match r.crit {
                        Crit::Size(_) => Crit::Size(25),
                        Crit::AgeOrSize(a, _) => Crit::AgeOrSize(a, 25),
                        other => other,
                    };
                    r.crit = fix_crit(r.crit, &r.nam);
                }
                let ops = prop::collection::vec(prop_oneof![6 => (8usize..30).prop_map(Op::Write), 2 => Just(Op::Rotate), 1 => Just(Op::Advance(1000)), 1 => Just(Op::Advance(86_400_000))], 8..30);
                (Just(cfg), Just(t0), ops, Just(restart_append), Just(pick_seed), Just(restart_short))
            })
            .prop_map(move |(cfg, t0, ops, restart_append, pick_seed, restart_short)| Case { tz: crate::vtime::tz_name(), cfg, t0, ops, restart_append, pick_seed, max_kills, restart_short })
            .boxed()
    }

    fn run(case: &Case) -> Outcome {
        let mut out = Outcome::ok();
        let sc = Scratch::new("c11");
        let cfg = &case.cfg;
        out.class(cfg.nam().map_or("nam:none", |n| n.label()));
        out.class(if cfg.bg_cleanup { "cleanup:background-thread" } else { "cleanup:logging-thread" });
        let lens_map: BTreeMap<u32, usize> = {
            let mut m = BTreeMap::new();
            let mut q = 0;
            for op in &case.ops {
                if let Op::Write(l) = op {
                    m.insert(q, rec_len(*l));
                    q += 1;
                }
            }
            m
        };
        let n_old = lens_map.len() as u32;
        let lens = |q: u32| -> usize {
            if q < n_old {
                lens_map[&q]
            } else {
                // records of the restarted logger
                [9usize, 10, 11][((q - n_old) % 3) as usize]
            }
        };
        let job = |phase: Phase, tag: &str| -> ChildJob {
            ChildJob {
                case: case.clone(),
                phase,
                dir: sc.sub(&format!("{tag}/logs")),
                ack: sc.sub(&format!("{tag}/ack")),
                err: sc.sub(&format!("{tag}/err")),
                trace_out: sc.sub(&format!("{tag}/trace")),
                link: sc.sub(&format!("{tag}/link")),
            }
        };
        let run_job = |j: &ChildJob, tag: &str| {
            let _ = std::fs::create_dir_all(sc.sub(tag));
            let jf = sc.sub(&format!("{tag}/job.json"));
            write_case(&jf, j);
            run_child("c11", &jf, &case.tz, Duration::from_secs(30))
        };
        // step 1: trace
        let tj = job(Phase::Trace, "trace");
        let co = run_job(&tj, "trace");
        if co.timed_out || co.code != Some(0) {
            return Outcome::fail("trace-child-failed", format!("exit {:?} signal {:?}: {}", co.code, co.signal, lossy(&co.stderr)));
        }
        let trace: Vec<(String, u64)> = serde_json::from_slice(&std::fs::read(&tj.trace_out).unwrap_or_default()).unwrap_or_default();
        let _ = std::fs::remove_dir_all(sc.sub("trace"));
        // choose pairs
        let mut pairs: Vec<(String, u64)> = trace.clone();
        pairs.sort();
        pairs.dedup();
        if pairs.len() > case.max_kills {
            let mut keep: BTreeSet<(String, u64)> = BTreeSet::new();
            let mut per: BTreeMap<String, Vec<u64>> = BTreeMap::new();
            for (n, o) in &pairs {
                per.entry(n.clone()).or_default().push(*o);
            }
            for (n, occs) in &per {
                keep.insert((n.clone(), *occs.first().unwrap()));
                keep.insert((n.clone(), *occs.last().unwrap()));
            }
            let mut x = case.pick_seed;
            while keep.len() < case.max_kills {
                x = crate::util::mix(x, 13);
                keep.insert(pairs[(x % pairs.len() as u64) as usize].clone());
            }
            pairs = keep.into_iter().collect();
        } else {
            out.class("all-pairs-enumerated");
        }
        let limits = cfg.rot.as_ref().and_then(|r| r.cln.limits());
        let mut n = 0u64;
        let mut interesting = false;
        for (pi, (point, occ)) in pairs.iter().enumerate() {
            n += 1;
            let tag = format!("k{pi}");
            let what = format!("kill at {point}#{occ}");
            let kj = job(Phase::Kill { point: point.clone(), occ: *occ }, &tag);
            let co = run_job(&kj, &tag);
            let killed = co.signal == Some(libc::SIGKILL);
            if !killed && co.code != Some(0) {
                out.set_fail("kill-child-failed", format!("{what}: exit {:?} signal {:?}: {}", co.code, co.signal, lossy(&co.stderr)));
                break;
            }
            if !killed {
                out.class("kill-point-not-reached");
            }
            let acked: Vec<u32> = std::fs::read_to_string(&kj.ack).unwrap_or_default().lines().filter_map(|l| l.parse().ok()).collect();
            let after_kill = match read_dir_records(cfg, &kj.dir, &lens, false) {
                Ok(p) => p,
                Err((sig, msg)) => {
                    out.set_fail(format!("after-kill:{sig}@{point}"), format!("{what}: {msg}"));
                    break;
                }
            };
            let recs = &after_kill.records;
            if let Some(w) = recs.windows(2).find(|w| w[1] <= w[0]) {
                out.set_fail(format!("after-kill:records-reordered-or-duplicated@{point}"), format!("{what}: record {} follows record {}; files {:?}", w[1], w[0], after_kill.fam.iter().map(|f| f.name.clone()).collect::<Vec<_>>()));
                break;
            }
            // with a cleanup limit, records older than the newest k+m rotated files may be gone
            // (a kill in the middle of a cleanup pass leaves the oldest files for the next pass)
            let threshold: u32 = match limits {
                None => 0,
                Some((k, m)) => {
                    // first record of every rotated file (for direct namings the current
                    // file is one of them, and the listing the limits apply to contains it)
                    let firsts: Vec<u32> = after_kill
                        .fam
                        .iter()
                        .filter(|f| matches!(f.parsed.kind, Kind::Rotated(_)))
                        .map(|f| {
                            String::from_utf8_lossy(&f.content)
                                .lines()
                                .filter_map(|l| l.split(':').nth(1).and_then(|x| x.parse::<u32>().ok()))
                                .next()
                                .unwrap_or(u32::MAX)
                        })
                        .collect();
                    let keep = k.saturating_add(m).min(firsts.len());
                    if keep == 0 {
                        // every rotated file may be gone: only the current file must be complete
                        after_kill
                            .fam
                            .iter()
                            .filter(|f| !matches!(f.parsed.kind, Kind::Rotated(_)))
                            .filter_map(|f| String::from_utf8_lossy(&f.content).lines().filter_map(|l| l.split(':').nth(1).and_then(|x| x.parse::<u32>().ok())).next())
                            .min()
                            .unwrap_or(u32::MAX)
                    } else {
                        // the files are in semantic order: whatever is older than the newest
                        // `keep` rotated files may already be gone (in the steady state exactly
                        // `keep` rotated files exist and everything older was removed)
                        firsts[firsts.len() - keep..].iter().copied().min().unwrap_or(u32::MAX)
                    }
                }
            };
            let mut lost = None;
            for a in &acked {
                if !recs.contains(a) && *a >= threshold {
                    lost = Some(*a);
                    break;
                }
            }
            if let Some(a) = lost {
                out.set_fail(
                    format!("acknowledged-record-lost@{point}"),
                    format!("{what}: record {a} was acknowledged (its log call had returned) but is in no file; acknowledged {acked:?}, found {recs:?}; files {:?}", after_kill.fam.iter().map(|f| format!("{}[{}B]", f.name, f.content.len())).collect::<Vec<_>>()),
                );
                break;
            }
            let extra = recs.iter().filter(|r| !acked.contains(r)).count();
            if extra > 1 {
                out.set_fail(format!("unacknowledged-records-present@{point}"), format!("{what}: {extra} records in the files were never acknowledged"));
                break;
            }
            // restart
            let next_q = n_old;
            let mut rj = job(Phase::Restart { append: case.restart_append, first_q: next_q }, &tag);
            rj.ack = sc.sub(&format!("{tag}/ack2"));
            let jf = sc.sub(&format!("{tag}/job2.json"));
            write_case(&jf, &rj);
            let co2 = run_child("c11", &jf, &case.tz, Duration::from_secs(30));
            let debug_dump = format!("== {what}\n-- killed child:\n{}-- restarted child:\n{}", String::from_utf8_lossy(&co.stderr), String::from_utf8_lossy(&co2.stderr));
            let _dump_guard = DumpOnFail(debug_dump, std::cell::Cell::new(false));
            let dump = &_dump_guard;
            if co2.timed_out || co2.code != Some(0) {
                out.set_fail(format!("restart-failed@{point}"), format!("{what}: the restarted logger's process ended with exit {:?} signal {:?} timed_out {}: {}", co2.code, co2.signal, co2.timed_out, lossy(&co2.stderr)));
                dump.1.set(true);
                break;
            }
            let errtxt = crate::util::filter_errchan(&std::fs::read_to_string(&rj.err).unwrap_or_default());
            // the error file also holds what the killed run reported (nothing is expected there either)
            if !errtxt.is_empty() {
                out.set_fail(format!("restart-reports-errors@{point}"), format!("{what}: error channel after the restart: {}", lossy(errtxt.as_bytes())));
                dump.1.set(true);
                break;
            }
            let fin = match read_dir_records(cfg, &rj.dir, &lens, false) {
                Ok(p) => p,
                Err((sig, msg)) => {
                    out.set_fail(format!("after-restart:{sig}@{point}"), format!("{what}: {msg}"));
                    dump.1.set(true);
                break;
                }
            };
            if let Some(w) = fin.records.windows(2).find(|w| w[1] <= w[0]) {
                out.set_fail(format!("after-restart:records-reordered-or-duplicated@{point}"), format!("{what}: record {} follows record {}; files {:?}", w[1], w[0], fin.fam.iter().map(|f| f.name.clone()).collect::<Vec<_>>()));
                dump.1.set(true);
                break;
            }
            // the new records are all there (the newest ones, so no limit removes the last)
            let last_new = if case.restart_short { next_q } else { next_q + 2 };
            if fin.records.last() != Some(&last_new) {
                out.set_fail(format!("after-restart:new-records-missing@{point}"), format!("{what}: records after restart {:?}, expected to end with {}", fin.records, last_new));
                dump.1.set(true);
                break;
            }
            // "with all other guarantees intact": a configured symlink resolves to the file that
            // holds the newest record (C16's clause, after a kill at any point and a restart)
            if cfg.symlink {
                let want = fin.fam.iter().rev().find(|f| !f.parsed.gz).map(|f| f.name.clone());
                match std::fs::read_link(&rj.link) {
                    Ok(t) => {
                        if t.file_name().map(|n| n.to_string_lossy().to_string()) != want {
                            out.set_fail(format!("after-restart:symlink-does-not-point-to-current-file@{point}"), format!("{what}: symlink -> {t:?}, the file written last is {want:?}"));
                            dump.1.set(true);
                            break;
                        }
                    }
                    Err(e) => {
                        out.set_fail(format!("after-restart:symlink-missing@{point}"), format!("{what}: {e}"));
                        dump.1.set(true);
                        break;
                    }
                }
            }
            // old records that survived the kill are preserved, as far as the limits permit:
            // the survivors form a contiguous tail
            let ffirst = fin.records.first().copied().unwrap_or(u32::MAX);
            let missing_old: Vec<u32> = recs.iter().copied().filter(|r| !fin.records.contains(r) && *r > ffirst).collect();
            if !missing_old.is_empty() || (limits.is_none() && recs.iter().any(|r| !fin.records.contains(r))) {
                out.set_fail(
                    format!("restart-destroyed-earlier-records@{point}"),
                    format!("{what}: records {:?} were in the files after the kill but are gone after the restart (restart append={}); after kill {:?}, after restart {:?}; files {:?}", recs.iter().filter(|r| !fin.records.contains(r)).collect::<Vec<_>>(), case.restart_append, recs, fin.records, fin.fam.iter().map(|f| format!("{}[{}B]", f.name, f.content.len())).collect::<Vec<_>>()),
                );
                dump.1.set(true);
                break;
            }
            // compression across the restart is lossless: a file that was plain after the kill and
            // is compressed after the restart holds exactly the same bytes (an incomplete .gz left
            // by the kill must not replace its original)
            let mut bad_gz = None;
            for f in &after_kill.fam {
                if f.parsed.gz || f.content.is_empty() {
                    continue;
                }
                if let Some(g) = fin.fam.iter().find(|g| g.parsed.gz && g.name == format!("{}.gz", f.name)) {
                    // (with append the restarted logger may have appended to the file before it
                    // was rotated and compressed: then the old bytes are a prefix)
                    if !g.content.starts_with(&f.content) {
                        bad_gz = Some((f.name.clone(), f.content.len(), g.content.len()));
                        break;
                    }
                }
            }
            if let Some((name, before, after)) = bad_gz {
                out.set_fail(
                    format!("restart-keeps-incomplete-gz-instead-of-original@{point}"),
                    format!("{what}: after the kill {name} held {before} bytes; after the restart {name}.gz decompresses to {after} bytes that are not these (the original is gone)"),
                );
                dump.1.set(true);
                break;
            }
            if let Some((k, m)) = limits {
                // if something old is gone, the limits must be exhausted
                let direct = cfg.nam().is_some_and(|n| !n.rename_style());
                let rotated: Vec<&FamFile> = fin.fam.iter().enumerate().filter(|(i, f)| matches!(f.parsed.kind, Kind::Rotated(_)) && !(direct && *i + 1 == fin.fam.len())).map(|(_, f)| f).collect();
                let plain = rotated.iter().filter(|f| !f.parsed.gz).count();
                let gz = rotated.iter().filter(|f| f.parsed.gz).count();
                if plain > k || gz > m {
                    out.set_fail(format!("after-restart:limits-exceeded@{point}"), format!("{what}: {plain} plain / {gz} compressed rotated files, limits {k}/{m}"));
                    dump.1.set(true);
                break;
                }
                let gone = recs.iter().any(|r| !fin.records.contains(r));
                if gone && plain + gz + usize::from(direct) < k.saturating_add(m) {
                    out.set_fail(
                        format!("restart-destroyed-records-within-limits@{point}"),
                        format!("{what}: old records are gone after the restart although only {plain} plain + {gz} compressed rotated files exist (limits {k}/{m}); after kill {recs:?}, after restart {:?}; files {:?}", fin.records, fin.fam.iter().map(|f| format!("{}[{}B]", f.name, f.content.len())).collect::<Vec<_>>()),
                    );
                    dump.1.set(true);
                break;
                }
            }
            if killed && point != "write" && point != "write.post" {
                interesting = true;
                out.class(&format!("kill:{point}"));
            }
            let _ = std::fs::remove_dir_all(sc.sub(&tag));
        }
        out.weight = n.max(1);
        if interesting {
            out.nontrivial = true;
        }
        if crate::props::unsortable_format_with_cleanup(cfg) {
            if let Some(f) = out.fail.take() {
                out.set_fail(crate::props::SIG_UNSORTABLE, format!("{}: {}", f.sig, f.msg));
            }
        }
        out
    }
}

#[allow(dead_code)]
fn unused(_: VInst) {}
