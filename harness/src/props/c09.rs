//! C09 Age criterion: rotate exactly at the first write in a later clock period.
use super::part::{run_partition, Case, RunSpec};
use crate::fscn::*;
use crate::hist::*;
use crate::runner::{Outcome, Property, Tier};
use crate::vtime::{period, vinst_strat};
use proptest::prelude::*;

pub struct P;

impl Property for P {
    type Case = Case;
    const ID: &'static str = "C09";
    const LEVEL: &'static str = "exploration";
    fn rule() -> String {
        "proptest-generated cases under a virtual clock: structured start instants (year/month/day/hour/minute/second at their boundaries) x Advance steps {0,1ms,999ms,1s,59s,1min,1h,1d,28-31d,365/366d,...} interleaved with writes and forced rotations x Age in {Second,Minute,Hour,Day} (also AgeOrSize) x all naming schemes x synchronous write modes x 1-3 runs with append-restarts inside/outside the period x 6 DST-free time zones (one per worker process); oracle: ordered list of file contents == reference partition model (rotate iff local period of now != period in which the current file was started), and every timestamp-named file carries the (virtual) instant at which its content was started, truncated to the format's resolution. Non-trivial = at least one period boundary crossed with a write after it and at least 2 writes inside one period; distinct = distinct serialized case".into()
    }
    fn assumptions() -> Vec<String> {
        vec![
            "virtual clock and virtual file creation times through the verif_hooks feature (the real-metadata path is exercised by C01's real-clock cases)".into(),
            "DST-free zones only: with a repeated local hour 'later hour' is ambiguous in the property itself".into(),
            "async mode excluded: the writer thread reads the clock when it processes the record, not when the record is logged".into(),
            "TimestampsCustomFormat without current infix is generated only with an age not smaller than the infix resolution (documented precondition)".into(),
        ]
    }
    fn cases(tier: Tier) -> u64 {
        match tier {
            Tier::Quick => 60_000,
            Tier::Thorough => 1_500_000,
        }
    }
    fn strategy(_tier: Tier) -> BoxedStrategy<Case> {
        (
            age_strat(),
            prop::option::weighted(0.2, 5u64..200),
            naming_strat(),
            sync_mode_strat(),
            any::<bool>(),
            suffix_strat(),
            name_parts(false),
            prop::bool::weighted(0.5),
            prop::bool::weighted(0.2),
        )
            .prop_flat_map(|(age, size, nam, mode, crlf, suffix, (basename, discr), via_logger, utc)| {
                let crit = match size {
                    Some(n) => Crit::AgeOrSize(age, n),
                    None => Crit::Age(age),
                };
                let crit = fix_crit(crit, &nam);
                let empty_infix = nam.current_token().as_deref() == Some("");
                let basename = if empty_infix && basename.is_none() && discr.is_none() {
                    Some("app".to_string())
                } else {
                    basename
                };
                let cfg = FileCfg {
                    basename,
                    discr,
                    suffix,
                    start_ts: false,
                    rot: Some(Rot { crit, nam, cln: Cln::Never }),
                    mode,
                    crlf,
                    utc,
                    symlink: false,
                    bg_cleanup: false,
                    via_logger: via_logger && !utc,
                    build_variant: 0,
                };
                let le = cfg.line_ending().len();
                let ops = crate::hist::ops_strat_f(crit.size(), mode.buffer_cap(), le, true, 40, true);
                (
                    Just(cfg),
                    vinst_strat(),
                    prop::collection::vec((ops, crate::vtime::advance_ms_strat(), prop::bool::weighted(0.8)), 1..4),
                )
                    .prop_map(move |(cfg, t0, runs)| Case {
                        tz: crate::vtime::tz_name(),
                        cfg,
                        t0,
                        runs: runs
                            .into_iter()
                            .enumerate()
                            .map(|(i, (ops, gap_ms, append))| RunSpec {
                                append: i > 0 || append,
                                ops,
                                gap_ms,
                            })
                            .collect(),
                        realtime_ms: 0,
                        aligned_starts: 0,
                    })
            })
            .boxed()
    }

    fn fixed_cases(_tier: Tier) -> Vec<Case> {
        // real clock, real file metadata: the virtual clock cannot show how the file system's
        // creation times relate to the wall clock
        let mk = |nam: Nam, mode: Mode| Case {
            tz: crate::vtime::tz_name(),
            cfg: FileCfg {
                basename: Some("rt".into()),
                discr: None,
                suffix: Some("log".into()),
                start_ts: false,
                rot: Some(Rot { crit: Crit::Age(AgeU::Second), nam, cln: Cln::Never }),
                mode,
                crlf: false,
                utc: false,
                symlink: false,
                bg_cleanup: false,
                via_logger: true,
                build_variant: 0,
            },
            t0: crate::vtime::VInst::default_inst(),
            runs: Vec::new(),
            realtime_ms: 2300,
            aligned_starts: 0,
        };
        let aligned = |nam: Nam, mode: Mode| {
            let mut c = mk(nam, mode);
            c.realtime_ms = 1;
            c.aligned_starts = 4;
            c
        };
        vec![
            mk(Nam::Numbers, Mode::Direct),
            mk(Nam::Timestamps, Mode::BufDontFlush(512)),
            mk(Nam::NumbersDirect, Mode::Direct),
            aligned(Nam::Timestamps, Mode::Direct),
            aligned(Nam::NumbersDirect, Mode::BufDontFlush(512)),
        ]
    }
    fn run(case: &Case) -> Outcome {
        if case.realtime_ms > 0 {
            return run_realtime(case);
        }
        let r = run_partition(case, true);
        let mut out = r.out;
        let m = &r.model;
        if m.rotations_by_age > 0 && m.writes_after_rotation > 0 && m.same_period_writes >= 2 {
            out.nontrivial = true;
        }
        if case.cfg.utc {
            out.class("utc-names");
        }
        if case.runs.len() > 1 {
            out.class("restart");
        }
        if m.rotations_by_age > 0 {
            out.class("age-rotation");
        }
        // class: same field value in a later period (what a dropped comparison would miss)
        if let Some(a) = case.cfg.rot.as_ref().and_then(|r| r.crit.age()) {
            let mut same_field_later = false;
            for w in m.chunks.windows(2) {
                if let (Some(s0), Some(s1)) = (w[0].started_ns, w[1].started_ns) {
                    let p0 = period(s0, a);
                    let p1 = period(s1, a);
                    let last = |p: (i32, u32, u32, u32, u32, u32)| match a {
                        AgeU::Day => p.2,
                        AgeU::Hour => p.3,
                        AgeU::Minute => p.4,
                        AgeU::Second => p.5,
                    };
                    if p0 != p1 && last(p0) == last(p1) {
                        same_field_later = true;
                    }
                }
            }
            if same_field_later {
                out.class("same-field-later-period");
            }
        }
        out.class(&format!("tz:{}", case.tz));
        out
    }
}

/// Real-time case: records are logged in a tight loop while the wall clock crosses second
/// boundaries; each record carries the second shown by the clock right before and right after its
/// log call. Oracle: the number of non-empty files is at most the number of distinct seconds seen
/// (one file per period, no second rotation within a period), and no file holds records of two
/// seconds that are not adjacent readings of one record.
fn run_realtime(case: &Case) -> Outcome {
    use crate::hooks::h;
    use crate::util::Scratch;
    let mut out = Outcome::ok();
    out.class("real-time");
    let sc = Scratch::new("c09rt");
    let dir = sc.sub("logs");
    h().set_time(None);
    if case.aligned_starts > 0 {
        return run_aligned_starts(case, &sc, out);
    }
    let sess = match Sess::start(&case.cfg, &dir, false, None, None) {
        Ok(s) => s,
        Err(e) => return Outcome::fail("start-failed", e),
    };
    let sec = || chrono::Local::now().timestamp();
    let t0 = std::time::Instant::now();
    let mut seen = std::collections::BTreeSet::new();
    let mut q = 0u32;
    // (record number -> seconds read before / after the call)
    let mut stamps = Vec::new();
    while t0.elapsed() < std::time::Duration::from_millis(u64::from(case.realtime_ms)) {
        let a = sec();
        sess.write(&crate::util::payload(0, q, 12));
        let b = sec();
        seen.insert(a);
        seen.insert(b);
        stamps.push((a, b));
        q += 1;
        if q % 16 == 0 {
            std::thread::sleep(std::time::Duration::from_micros(300));
        }
    }
    sess.shutdown();
    let snap = crate::observe::snapshot(&dir);
    let fam = match crate::observe::family(&case.cfg, &snap) {
        Ok(f) => f,
        Err(e) => return Outcome::fail("family-illformed", e),
    };
    let files: Vec<&crate::observe::FamFile> = fam.iter().filter(|f| !f.content.is_empty()).collect();
    let listing = || files.iter().map(|f| format!("{}[{} records]", f.name, f.content.iter().filter(|b| **b == b'\n').count())).collect::<Vec<_>>().join(", ");
    if files.len() > seen.len() {
        out.set_fail(
            "real-time:more-files-than-periods",
            format!("{} records logged while the clock showed {} different seconds, but {} non-empty files exist: {}", q, seen.len(), files.len(), listing()),
        );
        return out;
    }
    for f in &files {
        let mut secs = std::collections::BTreeSet::new();
        for line in String::from_utf8_lossy(&f.content).lines() {
            if let Some(n) = line.split(':').nth(1).and_then(|x| x.parse::<usize>().ok()) {
                if let Some((a, b)) = stamps.get(n) {
                    secs.insert((*a, *b));
                }
            }
        }
        // all records of a file fit into one second (a record read in two seconds counts for either)
        let lo = secs.iter().map(|(a, _)| *a).max().unwrap_or(0);
        let hi = secs.iter().map(|(_, b)| *b).min().unwrap_or(0);
        if lo > hi {
            out.set_fail("real-time:file-spans-periods", format!("file {} holds records of different seconds; files: {}", f.name, listing()));
            return out;
        }
    }
    if seen.len() >= 3 && q > 100 {
        out.nontrivial = true;
    }
    out
}

/// A logger that is started right after a period boundary of the wall clock: the file it creates
/// is stamped by the file system's coarse clock, possibly with a time in the previous period. The
/// first record, logged in the same second as the start, must not cause a rotation.
fn run_aligned_starts(case: &Case, sc: &crate::util::Scratch, mut out: Outcome) -> Outcome {
    out.class("real-time-start-at-boundary");
    let mut judged = 0;
    for i in 0..case.aligned_starts {
        let dir = sc.sub(&format!("aligned{i}"));
        // wait for the first 300 microseconds of a second (at most ~1.1 s)
        let t0 = std::time::Instant::now();
        loop {
            let n = chrono::Local::now();
            if n.timestamp_subsec_micros() < 300 || t0.elapsed() > std::time::Duration::from_millis(1500) {
                break;
            }
            if n.timestamp_subsec_micros() < 990_000 {
                std::thread::sleep(std::time::Duration::from_millis(5));
            }
        }
        let a = chrono::Local::now().timestamp();
        let sess = match Sess::start(&case.cfg, &dir, false, None, None) {
            Ok(s) => s,
            Err(e) => return Outcome::fail("start-failed", e),
        };
        sess.write(&crate::util::payload(0, i, 12));
        sess.write(&crate::util::payload(0, i + 100, 12));
        if i % 2 == 1 {
            // the same for the file that reopen_output() creates after an external removal
            sess.flush();
            for e in crate::observe::snapshot(&dir) {
                let _ = std::fs::remove_file(dir.join(&e.name));
            }
            let _ = sess.reopen();
            sess.write(&crate::util::payload(0, i + 200, 12));
            sess.write(&crate::util::payload(0, i + 300, 12));
            out.class("real-time-reopen-at-boundary");
        }
        let b = chrono::Local::now().timestamp();
        sess.shutdown();
        if a != b {
            continue; // start and records did not fit into one second: nothing to judge
        }
        judged += 1;
        let snap = crate::observe::snapshot(&dir);
        if snap.len() != 1 {
            out.set_fail(
                "real-time:rotation-within-the-period-of-the-start",
                format!(
                    "logger started and two records logged within wall-clock second {a}, Age::Second: {} files exist: {}",
                    snap.len(),
                    snap.iter().map(|e| format!("{}[{}B]", e.name, e.size)).collect::<Vec<_>>().join(", ")
                ),
            );
            return out;
        }
    }
    if judged > 0 {
        out.nontrivial = true;
    }
    out
}
