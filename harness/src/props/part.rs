//! Shared engine of C08 / C09: multi-run histories compared with the reference partition model.
use crate::fscn::*;
use crate::hist::*;
use crate::hooks::{h, ns_to_local};
use crate::model::Model;
use crate::observe::{family, snapshot, FamFile, Key, Kind};
use crate::runner::Outcome;
use crate::util::{lossy, Scratch};
use crate::vtime::VInst;
use serde::{Deserialize, Serialize};

#[derive(Clone, Debug, Serialize, Deserialize)]
pub struct RunSpec {
    pub append: bool,
    pub ops: Vec<Op>,
    /// virtual milliseconds between the end of the previous run and this one
    pub gap_ms: i64,
}

#[derive(Clone, Debug, Serialize, Deserialize)]
pub struct Case {
    pub tz: String,
    pub cfg: FileCfg,
    pub t0: VInst,
    pub runs: Vec<RunSpec>,
    /// > 0: a real-time case (C09): no virtual clock, real file metadata; records are logged in a
    /// tight loop for this many milliseconds with Age::Second
    #[serde(default)]
    pub realtime_ms: u32,
    /// > 0: (real-time case) so many times a logger is started right after a second boundary of
    /// the wall clock and logs one record at once: no rotation may happen within that second
    #[serde(default)]
    pub aligned_starts: u32,
}

pub struct PartResult {
    pub out: Outcome,
    pub model: Model,
    pub files: Vec<FamFile>,
}

fn describe(files: &[FamFile]) -> String {
    files
        .iter()
        .map(|f| format!("{}[{}B]", f.name, f.content.len()))
        .collect::<Vec<_>>()
        .join(", ")
}

/// Executes the runs against the real logger and the model; compares the partition.
pub fn run_partition(case: &Case, check_infix: bool) -> PartResult {
    let mut out = Outcome::ok();
    let sc = Scratch::new("part");
    let dir = sc.sub("logs");
    let err = sc.sub("errors.txt");
    let cfg = &case.cfg;
    let mut ex = Exec::new(cfg, Some(case.t0));
    ex.dir = Some(dir.clone());
    if cfg.mode.is_async() && case.runs.iter().any(|r| r.ops.iter().any(|o| matches!(o, Op::FailWrite(_)))) {
        // count every hit of the point "write" from the start (see Exec::count_writes)
        h().set_mode(crate::hooks::MODE_FAULT);
        ex.count_writes = true;
    }
    out.class(cfg.mode.label());
    out.class(cfg.nam().map_or("nam:none", |n| n.label()));
    for (ri, run) in case.runs.iter().enumerate() {
        if ri > 0 && crate::props::avoid_direct_ts_restart(cfg) {
            // listed finding (restart of a logger that writes directly to timestamp-named
            // files): avoided by construction here, counted, and checked under C06
            out.avoided.push("direct-timestamp-naming x restart".into());
            break;
        }
        if ri > 0 {
            h().advance(run.gap_ms * crate::vtime::MS);
        }
        ex.model.start_run(run.append);
        let sess = match Sess::start(cfg, &dir, run.append, Some(&err), None) {
            Ok(s) => s,
            Err(e) => {
                out.set_fail("start-failed", e);
                return PartResult {
                    out,
                    model: ex.model,
                    files: Vec::new(),
                };
            }
        };
        for op in &run.ops {
            if let Err(e) = ex.apply(&sess, op) {
                out.set_fail("op-failed", e);
                break;
            }
        }
        sess.shutdown();
        if out.fail.is_some() {
            break;
        }
    }
    let snap = snapshot(&dir);
    let files = match family(cfg, &snap) {
        Ok(f) => f,
        Err(e) => {
            out.set_fail("family-illformed", e);
            Vec::new()
        }
    };
    if out.fail.is_none() {
        let stray: Vec<String> = stray_entries(cfg, &snap).into_iter().filter(|n| !n.starts_with("moved-away-")).collect();
        if !stray.is_empty() {
            out.set_fail("stray-file", format!("entries outside the naming pattern: {stray:?}"));
        }
    }
    if out.fail.is_none() {
        let got: Vec<&FamFile> = files.iter().filter(|f| !f.content.is_empty()).collect();
        let exp = ex.model.nonempty_chunks();
        let mut mismatch = None;
        if got.len() != exp.len() {
            mismatch = Some(format!(
                "number of non-empty files: expected {} got {}",
                exp.len(),
                got.len()
            ));
        } else {
            for (i, (g, e)) in got.iter().zip(exp.iter()).enumerate() {
                if g.content != e.bytes {
                    mismatch = Some(format!(
                        "file #{i} ({}) holds {} bytes {:?}, model expects {} bytes {:?}",
                        g.name,
                        g.content.len(),
                        lossy(&g.content),
                        e.bytes.len(),
                        lossy(&e.bytes)
                    ));
                    break;
                }
            }
        }
        if let Some(m) = mismatch {
            let stream_ok = crate::observe::stream_of(&files) == ex.model.expected_stream();
            out.set_fail(
                if stream_ok {
                    "partition-mismatch"
                } else {
                    "partition-and-stream-mismatch"
                },
                format!(
                    "{m}; expected sizes {:?}; files: {}",
                    exp.iter().map(|c| c.bytes.len()).collect::<Vec<_>>(),
                    describe(&files)
                ),
            );
        }
    }
    // timestamp-named files carry the time at which their content was started
    if out.fail.is_none() && check_infix {
        if let Some(nam) = cfg.nam() {
            if let Some(fmt) = nam.ts_format() {
                let got: Vec<&FamFile> = files.iter().filter(|f| !f.content.is_empty()).collect();
                let exp = ex.model.nonempty_chunks();
                for (g, e) in got.iter().zip(exp.iter()) {
                    if let (Kind::Rotated(Key::Ts { dt, .. }), Some(start)) = (&g.parsed.kind, e.started_ns) {
                        let st = ns_to_local(start);
                        let rendered = if cfg.utc {
                            st.naive_utc().format(&fmt).to_string()
                        } else {
                            st.format(&fmt).to_string()
                        };
                        let want = crate::observe::parse_ts_exact(&rendered, &fmt);
                        if want != Some(*dt) {
                            out.set_fail(
                                "infix-not-start-time",
                                format!(
                                    "file {} carries {dt}, but its content was started at {rendered} (virtual); files: {}",
                                    g.name,
                                    describe(&files)
                                ),
                            );
                            break;
                        }
                    }
                }
            }
        }
    }
    if ex.failed_writes > 0 {
        out.class("failed-write");
    }
    // (the report of an injected write failure is C19's subject; here it only means that the
    // error channel is not expected to be empty)
    if out.fail.is_none() && ex.failed_writes == 0 {
        if let Ok(e) = std::fs::read_to_string(&err) {
            let e = crate::util::filter_errchan(&e);
            if !e.is_empty() {
                out.set_fail("error-channel-output", format!("unexpected error channel output: {}", lossy(e.as_bytes())));
            }
        }
    }
    PartResult {
        out,
        model: ex.model,
        files,
    }
}
