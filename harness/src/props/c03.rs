//! C03 Concurrent logging keeps every line intact, exactly once, in per-thread order.
use crate::child::{read_case, run_child, write_case};
use crate::fscn::*;
use crate::hooks::{h, MODE_NOISE, MODE_OFF};
use crate::observe::{classify, family, snapshot, stream_of};
use crate::runner::{Outcome, Property, Tier};
use crate::util::{lossy, payload, Scratch};
use crate::vtime::VInst;
use flexi_logger::{ErrorChannel, LogSpecification, Logger};
use proptest::prelude::*;
use serde::{Deserialize, Serialize};
use std::collections::BTreeMap;
use std::path::Path;
use std::time::Duration;

#[derive(Clone, Debug, Serialize, Deserialize, PartialEq, Eq)]
pub enum Out {
    File,
    Stdout,
    Stderr,
}

#[derive(Clone, Debug, Serialize, Deserialize)]
pub struct Case {
    pub tz: String,
    pub out: Out,
    pub cfg: FileCfg,
    pub threads: u32,
    pub per_thread: u32,
    /// record lengths are drawn from this list round-robin with a per-thread offset
    pub lens: Vec<usize>,
    pub noise_seed: u64,
}

pub struct P;

fn rec_len(case: &Case, t: u32, q: u32) -> usize {
    case.lens[((t * 7 + q) as usize) % case.lens.len()].max(12)
}

fn log_all(case: &Case, log: &(dyn log::Log + Sync)) {
    let barrier = std::sync::Barrier::new(case.threads as usize);
    std::thread::scope(|s| {
        for t in 0..case.threads {
            let barrier = &barrier;
            s.spawn(move || {
                barrier.wait();
                for q in 0..case.per_thread {
                    let p = payload(t, q, rec_len(case, t, q));
                    log.log(&log::Record::builder().args(format_args!("{p}")).level(log::Level::Info).target("flv").module_path(Some("flv")).build());
                }
            });
        }
    });
}

/// checks a captured stream: every line an intact record, each exactly once, per-thread order
fn check_stream(case: &Case, bytes: &[u8], le: &[u8], what: &str) -> Result<u64, (String, String)> {
    let mut next: BTreeMap<u32, u32> = BTreeMap::new();
    let mut switches = 0u64;
    let mut last_t = None;
    let mut rest = bytes;
    let mut count = 0u64;
    while !rest.is_empty() {
        let Some(pos) = (0..rest.len()).find(|i| rest[*i..].starts_with(le)) else {
            return Err(("torn-line".into(), format!("{what}: output ends with an unterminated line {:?}", lossy(rest))));
        };
        let line = String::from_utf8_lossy(&rest[..pos]).to_string();
        rest = &rest[pos + le.len()..];
        let mut it = line.splitn(3, ':');
        let (t, q) = match (it.next().and_then(|x| x.parse::<u32>().ok()), it.next().and_then(|x| x.parse::<u32>().ok())) {
            (Some(t), Some(q)) if t < case.threads && q < case.per_thread => (t, q),
            _ => return Err(("line-not-intact".into(), format!("{what}: line {line:?} is no record of this case (interleaved or torn output)"))),
        };
        if payload(t, q, rec_len(case, t, q)) != line {
            return Err(("line-not-intact".into(), format!("{what}: record {t}:{q} is not intact: {line:?}")));
        }
        let want = next.get(&t).copied().unwrap_or(0);
        if q != want {
            return Err((
                if q < want { "record-duplicated-or-out-of-order".into() } else { "record-lost-or-out-of-order".into() },
                format!("{what}: thread {t}: record {q} appears where record {want} is due"),
            ));
        }
        next.insert(t, q + 1);
        if last_t.is_some_and(|l| l != t) {
            switches += 1;
        }
        last_t = Some(t);
        count += 1;
    }
    for t in 0..case.threads {
        let got = next.get(&t).copied().unwrap_or(0);
        if got != case.per_thread {
            return Err(("record-lost".into(), format!("{what}: thread {t}: only {got} of {} records arrived", case.per_thread)));
        }
    }
    let _ = count;
    Ok(switches)
}

fn std_logger(case: &Case) -> Logger {
    let l = Logger::with(LogSpecification::trace())
        .format(raw_format)
        .write_mode(case.cfg.mode.to_flexi())
        .error_channel(ErrorChannel::DevNull)
        .panic_if_error_channel_is_broken(false);
    match case.out {
        Out::Stdout => l.log_to_stdout(),
        _ => l.log_to_stderr(),
    }
}

/// `flv child c03 <case>`: logs to stdout/stderr from several threads, shuts down, exits
pub fn child_main(file: &Path) -> ! {
    let case: Case = read_case(file);
    let (log, handle) = match std_logger(&case).build() {
        Ok(x) => x,
        Err(e) => {
            eprintln!("CHILD-ERROR {e:?}");
            crate::child::exit_now(7)
        }
    };
    install_noise(&case);
    log_all(&case, &*log);
    h().set_mode(MODE_OFF);
    handle.shutdown();
    crate::child::exit_now(0)
}

fn install_noise(case: &Case) {
    let hh = h();
    {
        let mut ps = hh.points.lock().unwrap();
        ps.noise_seed = case.noise_seed;
        for n in ["sync.formatted", "async.send", "async.recv", "rotate.begin", "rotate.mounted", "cleanup.item", "open", "write"] {
            ps.noise_points.insert(n.to_string());
        }
    }
    hh.set_mode(MODE_NOISE);
}

impl Property for P {
    type Case = Case;
    const ID: &'static str = "C03";
    const LEVEL: &'static str = "exploration";
    fn rule() -> String {
        "randomised schedules over proptest-generated configurations: 2-8 threads released by a barrier, 20-300 records each with self-checking payloads and lengths around the buffer, pool-message and size-limit boundaries; write modes Direct, BufferDontFlush(cap), BufferAndFlush, Async{pool 1-4, message capacity 1-64}; outputs: a file with size rotation under every naming scheme (frozen virtual clock, so that every rotation of a timestamp naming collides and takes the .restart-NNNN path; at most a few hundred rotations), or stdout / stderr of a child process (pipes); seed-chosen scheduling noise (yield / 50-250 us sleeps) at the hook points after formatting, before the channel send, in the async writer loop, and around rotation. Oracle: the output (files in semantic order, or the pipe) splits into lines each of which is an intact record of the case (payload is a pure function of thread, sequence number and length), every record exactly once, and per thread the sequence numbers appear in increasing order without gaps. Non-trivial = at least as many thread switches in the output as there are threads, and for files at least one rotation; distinct = distinct serialized configuration".into()
    }
    fn assumptions() -> Vec<String> {
        vec!["the OS decides the interleaving inside critical sections: this is schedule sampling with widened windows, not enumeration".into()]
    }
    fn cases(tier: Tier) -> u64 {
        match tier {
            Tier::Quick => 1_200,
            Tier::Thorough => 25_000,
        }
    }
    fn chunk(_t: Tier) -> u64 {
        40
    }
    fn case_timeout() -> Duration {
        Duration::from_secs(90)
    }
    fn replay_repeats() -> u32 {
        20
    }
    fn strategy(_tier: Tier) -> BoxedStrategy<Case> {
        let mode = prop_oneof![2 => Just(Mode::Direct), 2 => (1usize..64).prop_map(Mode::BufDontFlush), 1 => (1usize..64).prop_map(|c| Mode::BufAndFlush(c, 1)), 3 => async_mode_strat()];
        (
            prop_oneof![5 => Just(Out::File), 1 => Just(Out::Stdout), 1 => Just(Out::Stderr)],
            mode,
            naming_strat(),
            prop_oneof![Just(200u64), Just(1000u64), Just(5000u64), 100u64..3000],
            2u32..9,
            prop_oneof![20u32..120, 120u32..300],
            prop::collection::vec(prop_oneof![12usize..40, 40usize..90, Just(64usize), Just(63usize), Just(65usize), Just(200usize)], 1..6),
            any::<u64>(),
            suffix_strat(),
            any::<bool>(),
            prop::option::weighted(0.5, (any::<bool>(), any::<bool>())),
        )
            .prop_map(|(out, mode, nam, size, threads, per_thread, lens, noise_seed, suffix, via_logger, cleanup)| {
                let nam = match nam {
                    // size criterion is documented as unsupported without current infix
                    Nam::Custom { current, fmt } if current.as_deref().is_none_or(str::is_empty) => Nam::Custom { current: Some("cur".into()), fmt },
                    o => o,
                };
                let mode = if out == Out::File { mode } else {
                    match mode {
                        Mode::BufAndFlush(c, _) => Mode::BufDontFlush(c),
                        Mode::Async { pool, msg, .. } => Mode::Async { pool, msg, flush_ms: 0 },
                        m => m,
                    }
                };
                // keep the number of rotations moderate
                let avg = (lens.iter().map(|l| (*l).max(12) + 1).sum::<usize>() / lens.len().max(1)) as u64;
                let total = u64::from(threads) * u64::from(per_thread) * avg;
                let size = size.max(total / 300);
                Case {
                    tz: crate::vtime::tz_name(),
                    out,
                    cfg: FileCfg {
                        basename: Some("mt".into()),
                        discr: None,
                        suffix,
                        start_ts: false,
                        // a cleanup strategy whose limit is never reached: the cleanup (and, if
                        // chosen, its background thread) runs with every rotation, concurrently
                        // with the logging threads, but must not remove anything
                        rot: Some(Rot {
                            crit: Crit::Size(size),
                            nam,
                            cln: match cleanup {
                                None => Cln::Never,
                                Some((_, false)) => Cln::Keep(100_000),
                                // every rotated file is compressed at once, none is removed
                                Some((_, true)) => Cln::KeepGz(100_000),
                            },
                        }),
                        mode,
                        crlf: false,
                        utc: false,
                        symlink: false,
                        bg_cleanup: cleanup.is_some_and(|(bg, _)| bg),
                        via_logger,
                        build_variant: 0,
                    },
                    threads,
                    per_thread,
                    lens,
                    noise_seed,
                }
            })
            .boxed()
    }

    fn run(case: &Case) -> Outcome {
        let mut out = Outcome::ok();
        out.class(case.cfg.mode.label());
        out.class(&format!("threads:{}", case.threads));
        let sc = Scratch::new("c03");
        match case.out {
            Out::File => {
                out.class("out:file");
                if case.cfg.rot.as_ref().is_some_and(|r| r.cln != Cln::Never) {
                    out.class(if case.cfg.bg_cleanup { "cleanup-thread-active" } else { "cleanup-in-logging-thread" });
                    if matches!(case.cfg.rot.as_ref().map(|r| r.cln), Some(Cln::KeepGz(_))) {
                        out.class("rotated-files-compressed");
                    }
                }
                out.class(case.cfg.nam().map_or("nam:none", |n| n.label()));
                let dir = sc.sub("logs");
                h().set_time(Some(VInst::default_inst().to_ns()));
                let sess = match Sess::start(&case.cfg, &dir, false, None, None) {
                    Ok(s) => s,
                    Err(e) => return Outcome::fail("start-failed", e),
                };
                install_noise(case);
                match &sess {
                    Sess::Logger { log, .. } => log_all(case, &**log),
                    Sess::Flw(w) => {
                        struct W<'a>(&'a flexi_logger::writers::FileLogWriter);
                        impl log::Log for W<'_> {
                            fn enabled(&self, _: &log::Metadata) -> bool {
                                true
                            }
                            fn log(&self, r: &log::Record) {
                                let mut now = flexi_logger::DeferredNow::new();
                                let _ = flexi_logger::writers::LogWriter::write(self.0, &mut now, r);
                            }
                            fn flush(&self) {}
                        }
                        log_all(case, &W(w));
                    }
                }
                h().set_mode(MODE_OFF);
                sess.shutdown();
                let snap = snapshot(&dir);
                if let Some(bad) = snap.iter().find(|e| classify(&case.cfg, &e.name).is_none()) {
                    return Outcome::fail("stray-file", format!("{:?} is outside the naming pattern", bad.name));
                }
                let fam = match family(&case.cfg, &snap) {
                    Ok(f) => f,
                    Err(e) => return Outcome::fail("family-illformed", e),
                };
                match check_stream(case, &stream_of(&fam), b"\n", "log files") {
                    Ok(sw) => {
                        if fam.len() >= 2 {
                            out.class("rotated");
                        }
                        if sw >= u64::from(case.threads) && fam.len() >= 2 {
                            out.nontrivial = true;
                        }
                    }
                    Err((sig, msg)) => out.set_fail(sig, format!("{msg}; {} files", fam.len())),
                }
            }
            Out::Stdout | Out::Stderr => {
                out.class(if case.out == Out::Stdout { "out:stdout" } else { "out:stderr" });
                let cf = sc.sub("case.json");
                write_case(&cf, case);
                let co = run_child("c03", &cf, "UTC", Duration::from_secs(60));
                if co.timed_out || co.code != Some(0) {
                    return Outcome::fail("child-failed", format!("exit {:?} signal {:?} timed_out {}: stderr {:?}", co.code, co.signal, co.timed_out, lossy(&co.stderr)));
                }
                let (data, other) = if case.out == Out::Stdout { (&co.stdout, &co.stderr) } else { (&co.stderr, &co.stdout) };
                if !other.is_empty() {
                    return Outcome::fail("output-on-other-stream", format!("unexpected output on the other stream: {:?}", lossy(other)));
                }
                match check_stream(case, data, b"\n", if case.out == Out::Stdout { "stdout" } else { "stderr" }) {
                    Ok(sw) => {
                        if sw >= u64::from(case.threads) {
                            out.nontrivial = true;
                        }
                    }
                    Err((sig, msg)) => out.set_fail(sig, msg),
                }
            }
        }
        out
    }
}
