//! C18 reopen_output and reset_flw switch files without losing or reordering records.
use crate::fscn::*;
use crate::hooks::h;
use crate::observe::{classify, family, snapshot, Kind};
use crate::runner::{Outcome, Property, Tier};
use crate::util::{payload, Scratch};
use crate::vtime::VInst;
use proptest::prelude::*;
use serde::{Deserialize, Serialize};
use std::collections::BTreeMap;
use std::path::{Path, PathBuf};

#[derive(Clone, Debug, Serialize, Deserialize)]
pub enum XOp {
    Write(usize),
    Flush,
    Rotate,
    /// the current file is renamed externally, `between` records are logged (only without
    /// rotation), then reopen_output() is called
    RenameReopen {
        between: Vec<usize>,
        /// an empty file is created externally at the original path before reopen_output()
        /// (what logrotate does in its `create` mode)
        #[serde(default)]
        recreate: bool,
    },
    /// the current file is removed externally, then reopen_output() is called
    RemoveReopen {
        #[serde(default)]
        recreate: bool,
    },
    /// reopen without any external action
    Reopen,
    /// reset_flw to family #n (other basename / directory / rotation setting)
    Reset {
        family: usize,
        other_mode: bool,
        /// the new state is built without append (only used for rotating families, where the
        /// previous current file is then preserved as a rotated file)
        #[serde(default)]
        no_append: bool,
    },
}

#[derive(Clone, Debug, Serialize, Deserialize)]
pub struct Case {
    pub tz: String,
    /// family 0 is the start configuration; all share the write mode
    pub families: Vec<FileCfg>,
    pub ops: Vec<XOp>,
    /// a second thread (source 1) logs while the history runs - also while reopen_output() and
    /// reset_flw() are in progress; hook points add seed-chosen yields and short sleeps
    #[serde(default)]
    pub concurrent: bool,
}

/// length of the second thread's records
const BG_LEN: usize = 24;

pub struct P;

fn fam_dir(sc: &Scratch, i: usize) -> PathBuf {
    sc.sub(&format!("fam{i}"))
}

/// path of the file that is currently written to, by the reference grammar
fn current_path(cfg: &FileCfg, dir: &Path) -> Option<PathBuf> {
    let snap = snapshot(dir);
    let fam = family(cfg, &snap).ok()?;
    let rename_style = cfg.nam().is_none_or(Nam::rename_style);
    let cur = if rename_style {
        fam.iter().find(|f| matches!(f.parsed.kind, Kind::Current | Kind::Plain))
    } else {
        fam.last()
    };
    cur.map(|f| dir.join(&f.name))
}

/// records (sequence numbers) found in `bytes`, in order; Err on a line that is no intact record
fn parse_records(bytes: &[u8], le: &[u8], lens: &BTreeMap<u32, usize>) -> Result<Vec<u32>, String> {
    parse_records2(bytes, le, lens).map(|(a, _)| a)
}

/// (records of the history's thread, records of the second thread), each in file order
fn parse_records2(bytes: &[u8], le: &[u8], lens: &BTreeMap<u32, usize>) -> Result<(Vec<u32>, Vec<u32>), String> {
    let mut out = Vec::new();
    let mut out1 = Vec::new();
    let mut rest = bytes;
    while !rest.is_empty() {
        let pos = (0..rest.len()).find(|i| rest[*i..].starts_with(le)).ok_or_else(|| format!("unterminated line {:?}", crate::util::lossy(rest)))?;
        let line = &rest[..pos];
        rest = &rest[pos + le.len()..];
        let text = String::from_utf8_lossy(line).to_string();
        let mut it = text.splitn(3, ':');
        let (Some(src), Some(q)) = (it.next(), it.next()) else {
            return Err(format!("line {text:?} is no record of this case"));
        };
        let q: u32 = q.parse().map_err(|_| format!("line {text:?} is no record of this case"))?;
        if src == "1" {
            if text != payload(1, q, BG_LEN) {
                return Err(format!("record {q} of the second thread is not intact: {text:?}"));
            }
            out1.push(q);
            continue;
        }
        if src != "0" {
            return Err(format!("line {text:?} is no record of this case"));
        }
        let len = *lens.get(&q).ok_or_else(|| format!("record {q} was never logged"))?;
        if text != payload(0, q, len) {
            return Err(format!("record {q} is not intact: {text:?}"));
        }
        out.push(q);
    }
    Ok((out, out1))
}

impl Property for P {
    type Case = Case;
    const ID: &'static str = "C18";
    const LEVEL: &'static str = "exploration";
    fn rule() -> String {
        "model-based histories (proptest): synchronous write modes (Direct, SupportCapture, BufferDontFlush(cap), BufferAndFlush) x rotation off/on (all namings, size criterion, explicit rotations) x Vec<Write | Flush | Rotate | external rename of the current file (+ records in between, without rotation) + reopen_output | external removal + reopen_output | reopen_output alone | reset_flw to another family (other basename, directory, rotation setting; 15% with another write mode, which must be refused and change nothing)>. Every record carries a unique, self-checking payload. Oracle after shutdown: every record that was not in an externally removed file is found exactly once over all locations; inside every file and along every family (semantic order) the sequence numbers increase; every renamed file holds a contiguous range of records that ends with the last record logged before its reopen_output() call; all records logged after a reopen_output() are in the original family, all records logged after a successful reset_flw are in the new family and none of the earlier ones is. Non-trivial = a buffered mode with unflushed records at the moment of a reopen/reset, or a history mixing at least two of reopen, reset and rotation; distinct = distinct serialized case".into()
    }
    fn assumptions() -> Vec<String> {
        vec![
            "records logged between an external rename and reopen_output() are generated only without rotation (with rotation a rotation in between re-creates the file on its own)".into(),
            "what was in an externally removed file is unobservable: records logged before that reopen may be missing, everything else is asserted".into(),
        ]
    }
    fn cases(tier: Tier) -> u64 {
        match tier {
            Tier::Quick => 120_000,
            Tier::Thorough => 2_000_000,
        }
    }
    fn strategy(_tier: Tier) -> BoxedStrategy<Case> {
        let fam = (
            prop::option::weighted(0.6, (10u64..120, prop_oneof![Just(Nam::Numbers), Just(Nam::NumbersDirect), Just(Nam::Timestamps), Just(Nam::TimestampsDirect), Just(Nam::Custom { current: Some("cur".into()), fmt: "r%Y%m%d-%H%M%S".into() })])),
            prop_oneof![Just("app".to_string()), Just("other".to_string()), Just("app2".to_string()), "[a-z]{1,5}"],
            suffix_strat(),
        );
        (sync_mode_strat(), any::<bool>(), any::<bool>(), prop::collection::vec(fam, 1..4), prop::bool::weighted(0.12))
            .prop_flat_map(|(mode, crlf, via_logger, fams, concurrent)| {
                let families: Vec<FileCfg> = fams
                    .into_iter()
                    .map(|(rot, basename, suffix)| FileCfg {
                        basename: Some(basename),
                        discr: None,
                        suffix,
                        start_ts: false,
                        // (concurrent cases: a cleanup thread whose limits are never reached - it takes
                        // part in rotations and is joined when a state is replaced)
                        rot: rot.map(|(n, nam)| Rot { crit: Crit::Size(n), nam, cln: if concurrent { Cln::Keep(100_000) } else { Cln::Never } }),
                        mode,
                        crlf,
                        utc: false,
                        symlink: false,
                        bg_cleanup: concurrent,
                        via_logger,
                        build_variant: 0,
                    })
                    .collect();
                let nf = families.len();
                let len = prop_oneof![8usize..30, Just(8usize), 30usize..90];
                let op = prop_oneof![
                    12 => len.clone().prop_map(XOp::Write),
                    1 => Just(XOp::Flush),
                    2 => Just(XOp::Rotate),
                    2 => (prop::collection::vec(len, 0..3), any::<bool>()).prop_map(|(between, recreate)| XOp::RenameReopen { between, recreate }),
                    1 => any::<bool>().prop_map(|recreate| XOp::RemoveReopen { recreate }),
                    1 => Just(XOp::Reopen),
                    2 => (0..nf, prop::bool::weighted(0.15), prop::bool::weighted(0.4)).prop_map(|(family, other_mode, no_append)| XOp::Reset { family, other_mode, no_append }),
                ];
                (Just(families), prop::collection::vec(op, 1..30), Just(concurrent))
            })
            .prop_map(|(families, ops, concurrent)| {
                // what an externally removed file held is unobservable: not in concurrent cases
                let ops = if concurrent { ops.into_iter().filter(|o| !matches!(o, XOp::RemoveReopen { .. })).collect() } else { ops };
                Case { tz: crate::vtime::tz_name(), families, ops, concurrent }
            })
            .boxed()
    }

    fn run(case: &Case) -> Outcome {
        let mut out = Outcome::ok();
        let sc = Scratch::new("c18");
        h().set_time(Some(VInst::default_inst().to_ns()));
        let cfg0 = &case.families[0];
        let le = cfg0.line_ending().to_vec();
        out.class(cfg0.mode.label());
        let sess = match Sess::start(cfg0, &fam_dir(&sc, 0), false, None, None) {
            Ok(s) => s,
            Err(e) => return Outcome::fail("start-failed", e),
        };
        // the second thread: free-running, but paced by the history (it stops when the history is
        // done; the history waits for two of its records before every operation)
        let bg_count = std::sync::Arc::new(std::sync::atomic::AtomicU32::new(0));
        let bg_stop = std::sync::Arc::new(std::sync::atomic::AtomicBool::new(false));
        let sess = std::sync::Arc::new(sess);
        let bg = if case.concurrent {
            out.class("concurrent-second-thread");
            {
                let hh = h();
                let mut ps = hh.points.lock().unwrap();
                ps.noise_seed = crate::util::fnv(serde_json::to_string(case).unwrap().as_bytes());
                ps.noise_points.clear();
                drop(ps);
                hh.set_mode(crate::hooks::MODE_NOISE);
            }
            let (s2, c2, st2) = (sess.clone(), bg_count.clone(), bg_stop.clone());
            Some(std::thread::spawn(move || {
                let mut i = 0u32;
                while !st2.load(std::sync::atomic::Ordering::SeqCst) && i < 4000 {
                    s2.write(&payload(1, i, BG_LEN));
                    i += 1;
                    c2.store(i, std::sync::atomic::Ordering::SeqCst);
                }
            }))
        } else {
            None
        };
        let pace = || {
            if case.concurrent {
                let c0 = bg_count.load(std::sync::atomic::Ordering::SeqCst);
                let t0 = std::time::Instant::now();
                while bg_count.load(std::sync::atomic::Ordering::SeqCst) < c0 + 2 && t0.elapsed() < std::time::Duration::from_millis(20) {
                    std::thread::yield_now();
                }
            }
        };
        let mut q: u32 = 0;
        let mut lens: BTreeMap<u32, usize> = BTreeMap::new();
        // where records must be: family index per record, decided at logging time
        let mut fam_of: BTreeMap<u32, usize> = BTreeMap::new();
        let mut active = 0usize;
        // renamed files: (path, first seq that must NOT be in it any more)
        let mut renamed: Vec<(PathBuf, u32)> = Vec::new();
        // records that may be missing (they were in a removed file)
        let mut may_miss_before: u32 = 0;
        // per family: seq from which on all records must be in the family itself (after reopen)
        let mut kinds = std::collections::BTreeSet::new();
        let mut unflushed = 0usize;
        let mut buffered_at_switch = false;
        // the writer opens its file lazily with the first write (also after a reset)
        let mut opened = false;
        let write = |sess: &Sess, len: usize, q: &mut u32, lens: &mut BTreeMap<u32, usize>, fam_of: &mut BTreeMap<u32, usize>, active: usize| {
            let p = payload(0, *q, len);
            lens.insert(*q, len);
            fam_of.insert(*q, active);
            *q += 1;
            sess.write(&p);
        };
        for op in &case.ops {
            pace();
            let cfg = &case.families[active];
            let dir = fam_dir(&sc, active);
            if std::env::var("FLV_DEBUG").is_ok() {
                eprintln!("before {op:?} (active {active}, q {q}): {}", crate::hist::dir_listing(&dir));
            }
            match op {
                XOp::Write(len) => {
                    write(&sess, *len, &mut q, &mut lens, &mut fam_of, active);
                    unflushed += len + le.len();
                    opened = true;
                }
                XOp::Flush => {
                    sess.flush();
                    unflushed = 0;
                }
                XOp::Rotate => {
                    if cfg.rot.is_some() {
                        kinds.insert("rotation");
                    }
                    if let Err(e) = sess.rotate() {
                        out.set_fail("rotate-failed", e);
                        break;
                    }
                }
                XOp::RenameReopen { between, recreate } => {
                    if !opened {
                        continue; // the file is opened lazily: nothing to rename yet
                    }
                    let Some(cur) = current_path(cfg, &dir) else { continue };
                    let dst = sc.sub(&format!("renamed-{}", renamed.len()));
                    if std::fs::rename(&cur, &dst).is_err() {
                        continue;
                    }
                    if cfg.mode.buffer_cap().is_some() && unflushed > 0 {
                        buffered_at_switch = true;
                    }
                    if cfg.rot.is_none() {
                        for len in between {
                            write(&sess, *len, &mut q, &mut lens, &mut fam_of, active);
                        }
                    }
                    if *recreate {
                        // (never truncating: with a second thread a rotation may have re-created the file meanwhile)
                        if std::fs::OpenOptions::new().write(true).create_new(true).open(&cur).is_ok() {
                            // (born now, in virtual time - like a file the logger creates itself)
                            if let Some(t) = h().time() {
                                h().register_birth(&cur, t);
                            }
                        }
                        out.class("file-recreated-externally-before-reopen");
                    }
                    if let Err(e) = sess.reopen() {
                        out.set_fail("reopen-failed", e);
                        break;
                    }
                    unflushed = 0;
                    renamed.push((dst, q));
                    kinds.insert("reopen");
                }
                XOp::RemoveReopen { recreate } => {
                    if !opened {
                        continue;
                    }
                    let Some(cur) = current_path(cfg, &dir) else { continue };
                    if std::fs::remove_file(&cur).is_err() {
                        continue;
                    }
                    if *recreate {
                        // (never truncating: with a second thread a rotation may have re-created the file meanwhile)
                        if std::fs::OpenOptions::new().write(true).create_new(true).open(&cur).is_ok() {
                            // (born now, in virtual time - like a file the logger creates itself)
                            if let Some(t) = h().time() {
                                h().register_birth(&cur, t);
                            }
                        }
                        out.class("file-recreated-externally-before-reopen");
                    }
                    if let Err(e) = sess.reopen() {
                        out.set_fail("reopen-failed", e);
                        break;
                    }
                    unflushed = 0;
                    may_miss_before = q;
                    kinds.insert("reopen");
                    out.class("external-remove");
                }
                XOp::Reopen => {
                    if let Err(e) = sess.reopen() {
                        out.set_fail("reopen-failed", e);
                        break;
                    }
                    unflushed = 0;
                    kinds.insert("reopen");
                }
                XOp::Reset { family, other_mode, no_append } => {
                    let mut target = case.families[*family].clone();
                    if *other_mode {
                        target.mode = match target.mode {
                            Mode::Direct | Mode::SupportCapture => Mode::BufDontFlush(77),
                            _ => Mode::Direct,
                        };
                    }
                    // a Logger hands the write mode without its flush interval to its
                    // FileLogWriter (the Logger flushes itself); reset_flw demands the same mode
                    if target.via_logger {
                        if let Mode::BufAndFlush(c, _) = target.mode {
                            target.mode = Mode::BufDontFlush(c);
                        }
                    }
                    // without rotation a re-open without append truncates (documented): append there
                    let append = !(*no_append && target.rot.is_some());
                    if !append {
                        out.class("reset-without-append");
                    }
                    let b = flw_builder(&target, &fam_dir(&sc, *family), append, None);
                    let r = sess.reset(&b);
                    if *other_mode {
                        if r.is_ok() {
                            out.set_fail("reset-with-other-write-mode-accepted", format!("reset_flw with write mode {:?} instead of {:?} returned Ok", target.mode, cfg.mode));
                            break;
                        }
                        out.class("refused-reset");
                    } else {
                        if let Err(e) = r {
                            out.set_fail("reset-failed", e);
                            break;
                        }
                        if cfg.mode.buffer_cap().is_some() && unflushed > 0 {
                            buffered_at_switch = true;
                        }
                        unflushed = 0;
                        if *family != active {
                            kinds.insert("reset");
                        }
                        active = *family;
                        opened = false;
                    }
                }
            }
        }
        pace();
        bg_stop.store(true, std::sync::atomic::Ordering::SeqCst);
        if let Some(j) = bg {
            let _ = j.join();
        }
        h().set_mode(crate::hooks::MODE_OFF);
        let bg_total = bg_count.load(std::sync::atomic::Ordering::SeqCst);
        match std::sync::Arc::try_unwrap(sess) {
            Ok(s) => s.shutdown(),
            Err(_) => return Outcome::fail("harness", "session still shared".to_string()),
        }
        if out.fail.is_some() {
            return out;
        }
        // records of the second thread: where each one was found
        let mut bg_seen: BTreeMap<u32, Vec<String>> = BTreeMap::new();
        // ---- observation -------------------------------------------------------------------
        let mut seen: BTreeMap<u32, Vec<String>> = BTreeMap::new();
        let mut note = |q: u32, place: String| seen.entry(q).or_default().push(place);
        // families
        for (fi, cfg) in case.families.iter().enumerate() {
            let dir = fam_dir(&sc, fi);
            let snap = snapshot(&dir);
            if let Some(bad) = snap.iter().find(|e| classify(cfg, &e.name).is_none()) {
                out.set_fail("stray-file", format!("family #{fi}: {:?} is outside the naming pattern", bad.name));
                return out;
            }
            let fam = match family(cfg, &snap) {
                Ok(f) => f,
                Err(e) => {
                    out.set_fail("family-illformed", e);
                    return out;
                }
            };
            let mut last: Option<u32> = None;
            let mut last1: Option<u32> = None;
            for f in &fam {
                let (recs, recs1) = match parse_records2(&f.content, &le, &lens) {
                    Ok(r) => r,
                    Err(e) => {
                        out.set_fail("torn-or-foreign-line", format!("family #{fi} file {}: {e}", f.name));
                        return out;
                    }
                };
                for r in recs1 {
                    if last1.is_some_and(|l| r <= l) {
                        out.set_fail("second-thread-records-reordered-or-duplicated-in-family", format!("family #{fi}: record {r} of the second thread follows its record {} (file {})", last1.unwrap(), f.name));
                        return out;
                    }
                    last1 = Some(r);
                    bg_seen.entry(r).or_default().push(format!("family#{fi}"));
                }
                for r in recs {
                    if last.is_some_and(|l| r <= l) {
                        out.set_fail("records-reordered-or-duplicated-in-family", format!("family #{fi}: record {r} follows record {} (file {})", last.unwrap(), f.name));
                        return out;
                    }
                    last = Some(r);
                    // records of an equal configuration used under several indices
                    note(r, format!("family#{fi}"));
                    let want = fam_of[&r];
                    if want != fi {
                        out.set_fail("record-in-wrong-family", format!("record {r} was logged while family #{want} was configured, but is found in family #{fi} (file {})", f.name));
                        return out;
                    }
                }
            }
        }
        // renamed files
        for (i, (path, end)) in renamed.iter().enumerate() {
            let bytes = std::fs::read(path).unwrap_or_default();
            let (recs, recs1) = match parse_records2(&bytes, &le, &lens) {
                Ok(r) => r,
                Err(e) => {
                    out.set_fail("torn-or-foreign-line", format!("renamed file #{i}: {e}"));
                    return out;
                }
            };
            if recs1.windows(2).any(|w| w[1] <= w[0]) {
                out.set_fail("second-thread-records-reordered-or-duplicated-in-family", format!("renamed file #{i}: records of the second thread {recs1:?}"));
                return out;
            }
            for r in recs1 {
                bg_seen.entry(r).or_default().push(format!("renamed#{i}"));
            }
            // contiguous within the records of its family (a family can be left and re-entered
            // by reset_flw)
            if let Some(first) = recs.first() {
                let fam_idx = fam_of[first];
                let of_family: Vec<u32> = (0..q).filter(|r| fam_of[r] == fam_idx).collect();
                let start = of_family.iter().position(|r| r == first).unwrap_or(0);
                if of_family.get(start..start + recs.len()) != Some(&recs[..]) {
                    out.set_fail("renamed-file-not-contiguous", format!("renamed file #{i} holds records {recs:?}; records of its family: {of_family:?}"));
                    return out;
                }
            }
            if let Some(l) = recs.last() {
                if *l + 1 != *end {
                    // the last record before the reopen must be there, unless the current file
                    // was empty at that time (then the renamed file holds older or no records)
                    if *l >= *end {
                        out.set_fail("record-after-reopen-in-renamed-file", format!("renamed file #{i} holds record {l}, but reopen_output() had returned before record {end} was logged"));
                        return out;
                    }
                }
            }
            for r in recs {
                note(r, format!("renamed#{i}"));
            }
        }
        for r in 0..q {
            let places = seen.get(&r).cloned().unwrap_or_default();
            if places.len() > 1 {
                out.set_fail("record-duplicated", format!("record {r} found in {places:?}"));
                return out;
            }
            if places.is_empty() && r >= may_miss_before {
                out.set_fail("record-lost", format!("record {r} (of {q}) is in no file; it was logged after the last external removal; history {:?}", case.ops));
                return out;
            }
        }
        for r in 0..bg_total {
            let places = bg_seen.get(&r).cloned().unwrap_or_default();
            if places.len() > 1 {
                out.set_fail("record-duplicated", format!("record {r} of the second thread found in {places:?}"));
                return out;
            }
            if places.is_empty() {
                out.set_fail("record-lost", format!("record {r} (of {bg_total}) of the second thread is in no file; history {:?}", case.ops));
                return out;
            }
        }
        if buffered_at_switch {
            out.class("unflushed-at-switch");
        }
        for k in &kinds {
            out.class(k);
        }
        if buffered_at_switch || kinds.len() >= 2 {
            out.nontrivial = true;
        }
        out
    }
}
