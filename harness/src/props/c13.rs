//! C13 Brace targets, writer level ceilings and duplication route each record correctly.
use crate::child::{read_case, run_child, write_case};
use crate::fscn::raw_format;
use crate::runner::{Outcome, Property, Tier};
use crate::spec::*;
use crate::util::Scratch;
use flexi_logger::writers::{FileLogWriter, SyslogConnection, SyslogFacility, SyslogLineHeader, SyslogWriter};
use flexi_logger::{Duplicate, ErrorChannel, FileSpec, Logger};
use proptest::prelude::*;
use serde::{Deserialize, Serialize};
use std::path::Path;
use std::time::Duration;

#[derive(Clone, Debug, Serialize, Deserialize, PartialEq, Eq)]
pub enum WKind {
    Custom,
    File,
    Syslog3164,
    Syslog5424,
    /// RFC 3164 lines over a TCP connection to a listener on the loopback interface
    SyslogTcp,
}

#[derive(Clone, Debug, Serialize, Deserialize)]
pub struct WSpec {
    pub name: String,
    pub kind: WKind,
    pub ceiling: u8,
}

#[derive(Clone, Debug, Serialize, Deserialize)]
pub struct R {
    /// Some(list): brace target built from the list; None: plain target = `plain`
    pub list: Option<Vec<String>>,
    pub plain: String,
    pub level: u8,
    pub module: Option<String>,
}
impl R {
    pub fn target(&self) -> String {
        match &self.list {
            Some(l) => format!("{{{}}}", l.join(",")),
            None => self.plain.clone(),
        }
    }
}

#[derive(Clone, Debug, Serialize, Deserialize)]
pub enum Step {
    Log(R),
    AdaptErr(u8),
    AdaptOut(u8),
}

#[derive(Clone, Debug, Serialize, Deserialize)]
pub struct Case {
    pub spec: MSpec,
    pub writers: Vec<WSpec>,
    pub steps: Vec<Step>,
    /// duplication (0=None,1=Error..5=Trace,6=All) for stderr / stdout; Some => child process
    pub dup: Option<(u8, u8)>,
    /// index of a File writer whose every write fails (injected at the hook point "write", like a
    /// full device): it receives nothing, and nobody else may receive what was meant for it
    #[serde(default)]
    pub faulty: Option<usize>,
    /// WriteMode::SupportCapture (duplicates are written with print!/eprint!) instead of Direct
    #[serde(default)]
    pub support_capture: bool,
    /// (child-process cases) file descriptor 2 is closed before the first record: every write of
    /// a duplicate to stderr fails; the other outputs must get their records all the same
    #[serde(default)]
    pub close_stderr: bool,
}

pub struct P;

pub fn dup(n: u8) -> Duplicate {
    match n {
        0 => Duplicate::None,
        1 => Duplicate::Error,
        2 => Duplicate::Warn,
        3 => Duplicate::Info,
        4 => Duplicate::Debug,
        5 => Duplicate::Trace,
        _ => Duplicate::All,
    }
}
/// reference: duplicated iff the record's level is at or above (i.e. numerically <=) the level
fn dup_accepts(d: u8, level: u8) -> bool {
    match d {
        0 => false,
        6 => true,
        n => level <= n,
    }
}

pub fn id_format(w: &mut dyn std::io::Write, _now: &mut flexi_logger::DeferredNow, r: &log::Record) -> Result<(), std::io::Error> {
    write!(w, "{}", r.args())
}

fn name_pool() -> BoxedStrategy<String> {
    prop_oneof![Just("W1"), Just("W2"), Just("Alert"), Just("Sys"), Just("W1x")].prop_map(str::to_string).boxed()
}

fn steps_strat(writer_names: Vec<String>, with_dup: bool) -> BoxedStrategy<Vec<Step>> {
    let mut pool = writer_names.clone();
    pool.push("_Default".into());
    pool.push("Unknown".into());
    pool.push("w1".into());
    let list = proptest::sample::subsequence(pool.clone(), 0..=pool.len().min(5)).prop_shuffle();
    let rec = (
        prop::option::weighted(0.7, list),
        prop_oneof![Just("a".to_string()), Just("a::b".to_string()), Just("zzz".to_string()), Just(String::new())],
        1u8..6,
        prop::option::weighted(0.8, prop_oneof![Just("a".to_string()), Just("a::b".to_string()), Just("other".to_string())]),
    )
        .prop_map(|(list, plain, level, module)| Step::Log(R { list, plain, level, module }));
    let step = if with_dup {
        prop_oneof![8 => rec, 1 => (0u8..7).prop_map(Step::AdaptErr), 1 => (0u8..7).prop_map(Step::AdaptOut)].boxed()
    } else {
        rec.boxed()
    };
    prop::collection::vec(step, 1..25).boxed()
}

pub struct Routed {
    pub primary: Vec<String>,
    pub per_writer: Vec<Vec<String>>,
    pub errors: String,
    pub syslog_raw: Vec<Vec<String>>,
}

/// builds the logger in this process and logs the steps; returns what arrived where
fn execute(case: &Case, sc_dir: &Path, with_dup: bool) -> Result<Routed, String> {
    let errfile = sc_dir.join("errors.txt");
    let (prim, prim_rec) = Recorder::new(5);
    let mut l = Logger::with(case.spec.build_with_builder())
        .log_to_writer(Box::new(prim))
        .format(id_format)
        .error_channel(ErrorChannel::File(errfile.clone()))
        .panic_if_error_channel_is_broken(false);
    if case.support_capture {
        l = l.write_mode(flexi_logger::WriteMode::SupportCapture);
    }
    if with_dup {
        if let Some((e, o)) = case.dup {
            l = l.duplicate_to_stderr(dup(e)).duplicate_to_stdout(dup(o));
        }
    }
    enum Obs {
        Custom(std::sync::Arc<Rec>),
        File(std::path::PathBuf),
        Syslog(std::sync::Arc<std::sync::atomic::AtomicBool>, std::thread::JoinHandle<Vec<String>>),
    }
    let mut obs = Vec::new();
    for (i, w) in case.writers.iter().enumerate() {
        match w.kind {
            WKind::Custom => {
                let (r, rec) = Recorder::new(w.ceiling);
                l = l.add_writer(w.name.clone(), Box::new(r));
                obs.push(Obs::Custom(rec));
            }
            WKind::File => {
                let d = sc_dir.join(format!("w{i}"));
                let flw = FileLogWriter::builder(FileSpec::default().directory(&d).basename("out").suppress_timestamp())
                    .format(raw_format)
                    .max_level(lf(w.ceiling))
                    .try_build()
                    .map_err(|e| format!("flw: {e:?}"))?;
                l = l.add_writer(w.name.clone(), Box::new(flw));
                obs.push(Obs::File(d.join("out.log")));
            }
            WKind::SyslogTcp => {
                let listener = std::net::TcpListener::bind("127.0.0.1:0").map_err(|e| format!("bind tcp: {e}"))?;
                let addr = listener.local_addr().map_err(|e| format!("local_addr: {e}"))?;
                let stop = std::sync::Arc::new(std::sync::atomic::AtomicBool::new(false));
                let stop2 = stop.clone();
                // the reader collects until it is told to stop and nothing more arrives
                let reader = std::thread::spawn(move || {
                    use std::io::Read;
                    let mut all = Vec::new();
                    if let Ok((mut s, _)) = listener.accept() {
                        let _ = s.set_read_timeout(Some(Duration::from_millis(20)));
                        let mut buf = vec![0u8; 65536];
                        loop {
                            match s.read(&mut buf) {
                                Ok(0) => break,
                                Ok(n) => all.extend_from_slice(&buf[..n]),
                                Err(_) => {
                                    if stop2.load(std::sync::atomic::Ordering::SeqCst) {
                                        break;
                                    }
                                }
                            }
                        }
                    }
                    String::from_utf8_lossy(&all).split_terminator('\n').map(str::to_string).collect::<Vec<String>>()
                });
                let sw = SyslogWriter::builder(SyslogConnection::try_tcp(addr).map_err(|e| format!("connect tcp: {e}"))?, SyslogLineHeader::Rfc3164, SyslogFacility::LocalUse0)
                    .max_log_level(lf(w.ceiling))
                    .build()
                    .map_err(|e| format!("syslog build: {e}"))?;
                l = l.add_writer(w.name.clone(), sw);
                obs.push(Obs::Syslog(stop, reader));
            }
            WKind::Syslog3164 | WKind::Syslog5424 => {
                let sock = sc_dir.join(format!("s{i}.sock"));
                let rx = std::os::unix::net::UnixDatagram::bind(&sock).map_err(|e| format!("bind: {e}"))?;
                // a reader thread drains the socket while the case runs (a unix datagram
                // sender blocks once the receiver's queue holds net.unix.max_dgram_qlen packets)
                rx.set_read_timeout(Some(Duration::from_millis(2))).ok();
                let stop = std::sync::Arc::new(std::sync::atomic::AtomicBool::new(false));
                let stop2 = stop.clone();
                let reader = std::thread::spawn(move || {
                    let mut raws = Vec::new();
                    let mut buf = vec![0u8; 65536];
                    loop {
                        match rx.recv(&mut buf) {
                            Ok(n) => raws.push(String::from_utf8_lossy(&buf[..n]).to_string()),
                            Err(_) => {
                                if stop2.load(std::sync::atomic::Ordering::SeqCst) {
                                    break;
                                }
                            }
                        }
                    }
                    raws
                });
                let header = if w.kind == WKind::Syslog3164 { SyslogLineHeader::Rfc3164 } else { SyslogLineHeader::Rfc5424("MSGID".into()) };
                let sw = SyslogWriter::builder(
                    SyslogConnection::try_datagram(&sock).map_err(|e| format!("connect: {e}"))?,
                    header,
                    SyslogFacility::LocalUse0,
                )
                .max_log_level(lf(w.ceiling))
                .build()
                .map_err(|e| format!("syslog build: {e}"))?;
                l = l.add_writer(w.name.clone(), sw);
                obs.push(Obs::Syslog(stop, reader));
            }
        }
    }
    let (log, mut handle) = l.build().map_err(|e| format!("build: {e:?}"))?;
    if let Some(fi) = case.faulty.filter(|fi| case.writers.get(*fi).is_some_and(|w| w.kind == WKind::File)) {
        let hh = crate::hooks::h();
        hh.points.lock().unwrap_or_else(|p| p.into_inner()).fault_write_path = Some(format!("/w{fi}/"));
        hh.set_mode(crate::hooks::MODE_FAULT);
    }
    let mut idx = 0;
    for st in &case.steps {
        match st {
            Step::Log(r) => {
                let msg = format!("m{idx}");
                idx += 1;
                let t = r.target();
                log.log(
                    &log::Record::builder()
                        .args(format_args!("{msg}"))
                        .level(lvl(r.level))
                        .target(&t)
                        .module_path(r.module.as_deref())
                        .build(),
                );
            }
            Step::AdaptErr(d) => {
                if with_dup {
                    let _ = handle.adapt_duplication_to_stderr(dup(*d));
                }
            }
            Step::AdaptOut(d) => {
                if with_dup {
                    let _ = handle.adapt_duplication_to_stdout(dup(*d));
                }
            }
        }
    }
    handle.flush();
    handle.shutdown();
    crate::hooks::h().set_mode(crate::hooks::MODE_OFF);
    let primary: Vec<String> = prim_rec.handed.lock().unwrap().iter().map(|g| g.msg.clone()).collect();
    let mut per_writer = Vec::new();
    let mut syslog_raw = Vec::new();
    for o in obs {
        match o {
            Obs::Custom(rec) => {
                // delivery: handed exactly once each; emission: by the writer's own ceiling
                per_writer.push(rec.handed.lock().unwrap().iter().map(|g| g.msg.clone()).collect());
                syslog_raw.push(Vec::new());
            }
            Obs::File(p) => {
                let text = std::fs::read_to_string(&p).unwrap_or_default();
                per_writer.push(text.lines().map(str::to_string).collect());
                syslog_raw.push(Vec::new());
            }
            Obs::Syslog(stop, reader) => {
                stop.store(true, std::sync::atomic::Ordering::SeqCst);
                let raws = reader.join().unwrap_or_default();
                let msgs = raws.iter().map(|s| s.rsplit(' ').next().unwrap_or("").to_string()).collect();
                per_writer.push(msgs);
                syslog_raw.push(raws);
            }
        }
    }
    drop(handle);
    drop(log);
    let errors = std::fs::read_to_string(&errfile).unwrap_or_default();
    Ok(Routed { primary, per_writer, errors, syslog_raw })
}

/// entry point of `flv child c13 <file>`
pub fn child_main(file: &Path) -> ! {
    let case: Case = read_case(file);
    let dir = file.parent().unwrap().join("childrun");
    let _ = std::fs::create_dir_all(&dir);
    if case.close_stderr {
        unsafe {
            libc::close(2);
        }
    }
    match execute(&case, &dir, true) {
        Ok(r) => {
            let _ = std::fs::write(file.parent().unwrap().join("primary.txt"), r.primary.join("\n"));
            crate::child::exit_now(0)
        }
        Err(e) => {
            eprintln!("CHILD-ERROR {e}");
            crate::child::exit_now(7)
        }
    }
}

impl Property for P {
    type Case = Case;
    const ID: &'static str = "C13";
    const LEVEL: &'static str = "exploration";
    fn rule() -> String {
        "proptest-generated routing cases: 0-4 registered additional writers (recording custom writer; FileLogWriter with max_level; SyslogWriter with max_log_level over a unix datagram socket, RFC3164/RFC5424) with ceilings off..trace x steps that log records with brace lists (shuffled sub-sequences, length 0-5, over registered names, _Default, an unknown name, a case-variant name; no repeated names) or plain targets x 5 levels x module paths x specifications; 25% of the cases run in a child process with Duplicate settings for stderr/stdout and adapt_duplication_to_* steps in between (pipes captured). Oracle = routing model: each named registered writer gets the record exactly once (custom: handed once; file/syslog: emitted iff level <= ceiling, syslog as exactly one datagram), nobody else gets it, the default channel gets it iff _Default is in the list and the spec enables the record's module path (plain targets: the target), every unknown name yields an error-channel line, stderr/stdout carry a copy iff the record reached the default channel and its level is at or above the current duplication level. Non-trivial = a list with >= 2 registered names plus an unknown one, or a record whose level lies strictly between two writers' ceilings, or a duplication change between two records; distinct = distinct serialized case".into()
    }
    fn assumptions() -> Vec<String> {
        vec![
            "brace lists without repeated names and without blanks (what the documentation describes)".into(),
            "a custom LogWriter is handed every record addressed to it; honouring its own max_log_level is the writer's business (documented as 'the maximum log level that is to be written')".into(),
        ]
    }
    fn cases(tier: Tier) -> u64 {
        match tier {
            Tier::Quick => 15_000,
            Tier::Thorough => 500_000,
        }
    }
    fn strategy(_tier: Tier) -> BoxedStrategy<Case> {
        (
            mspec_strat(),
            prop::collection::btree_map(
                name_pool(),
                (prop_oneof![6 => Just(WKind::Custom), 4 => Just(WKind::File), 2 => Just(WKind::Syslog3164), 2 => Just(WKind::Syslog5424), 1 => Just(WKind::SyslogTcp)], 0u8..6),
                0..5,
            ),
            prop::option::weighted(0.25, (0u8..7, 0u8..7)),
        )
            .prop_flat_map(|(spec, ws, dup)| {
                let writers: Vec<WSpec> = ws.into_iter().map(|(name, (kind, ceiling))| WSpec { name, kind, ceiling }).collect();
                let names = writers.iter().map(|w| w.name.clone()).collect();
                let files: Vec<usize> = writers.iter().enumerate().filter(|(_, w)| w.kind == WKind::File).map(|(i, _)| i).collect();
                let faulty = if files.is_empty() {
                    Just(None).boxed()
                } else {
                    prop::option::weighted(0.3, proptest::sample::select(files)).boxed()
                };
                (Just(spec), Just(writers), steps_strat(names, dup.is_some()), Just(dup), faulty, prop::bool::weighted(0.3), prop::bool::weighted(0.25))
            })
            .prop_map(|(spec, writers, steps, dup, faulty, support_capture, close_stderr)| {
                // (print!/eprint! panic on a closed stream: not with SupportCapture)
                let close_stderr = close_stderr && dup.is_some() && !support_capture;
                Case { spec, writers, steps, dup, faulty, support_capture, close_stderr }
            })
            .boxed()
    }

    fn run(case: &Case) -> Outcome {
        let mut out = Outcome::ok();
        let sc = Scratch::new("c13");
        // model
        let mut exp_primary = Vec::new();
        let mut exp_w: Vec<Vec<String>> = vec![Vec::new(); case.writers.len()];
        let mut exp_unknown = 0usize;
        let mut exp_err = Vec::new();
        let mut exp_out = Vec::new();
        let (mut de, mut dout) = case.dup.unwrap_or((0, 0));
        let mut idx = 0;
        let mut nontrivial = false;
        let mut last_was_adapt = false;
        let mut logged_before = false;
        for st in &case.steps {
            match st {
                Step::Log(r) => {
                    let msg = format!("m{idx}");
                    idx += 1;
                    if last_was_adapt && logged_before {
                        nontrivial = true;
                        out.class("dup-change-between-records");
                    }
                    last_was_adapt = false;
                    logged_before = true;
                    let to_default = match &r.list {
                        Some(list) => {
                            let mut registered = 0;
                            let mut unknown = 0;
                            for n in list {
                                if n == "_Default" {
                                    continue;
                                }
                                match case.writers.iter().position(|w| &w.name == n) {
                                    Some(wi) => {
                                        registered += 1;
                                        let w = &case.writers[wi];
                                        let emits = match w.kind {
                                            WKind::Custom => true,
                                            _ => r.level <= w.ceiling,
                                        };
                                        if emits {
                                            exp_w[wi].push(msg.clone());
                                        }
                                    }
                                    None => {
                                        unknown += 1;
                                        exp_unknown += 1;
                                    }
                                }
                            }
                            if list.is_empty() {
                                // "{}" names the empty string, which is no registered writer
                                exp_unknown += 1;
                            }
                            if registered >= 2 && unknown >= 1 {
                                nontrivial = true;
                                out.class("multi-writer-list-with-unknown");
                            }
                            let ceilings: Vec<u8> = list.iter().filter_map(|n| case.writers.iter().find(|w| &w.name == n && w.kind != WKind::Custom)).map(|w| w.ceiling).collect();
                            if ceilings.iter().any(|c| *c < r.level) && ceilings.iter().any(|c| *c >= r.level) {
                                nontrivial = true;
                                out.class("level-between-ceilings");
                            }
                            list.iter().any(|n| n == "_Default") && case.spec.enabled(r.level, r.module.as_deref().unwrap_or(""))
                        }
                        None => case.spec.enabled(r.level, &r.plain),
                    };
                    if to_default && case.spec.text_ok(&msg) {
                        exp_primary.push(msg.clone());
                        if dup_accepts(de, r.level) {
                            exp_err.push(msg.clone());
                        }
                        if dup_accepts(dout, r.level) {
                            exp_out.push(msg.clone());
                        }
                    }
                }
                Step::AdaptErr(d) => {
                    de = *d;
                    last_was_adapt = true;
                }
                Step::AdaptOut(d) => {
                    dout = *d;
                    last_was_adapt = true;
                }
            }
        }
        let faulty = case.faulty.filter(|fi| case.writers.get(*fi).is_some_and(|w| w.kind == WKind::File));
        if let Some(fi) = faulty {
            if !exp_w[fi].is_empty() {
                out.class("failing-file-writer-addressed");
                if case.writers.len() >= 2 {
                    nontrivial = true;
                }
            }
            exp_w[fi].clear();
        }
        for w in &case.writers {
            out.class(match w.kind {
                WKind::Custom => "writer:custom",
                WKind::File => "writer:file",
                _ => "writer:syslog",
            });
        }
        if case.support_capture {
            out.class("write-mode:SupportCapture");
        }
        if case.dup.is_some() {
            out.class("child-with-duplication");
            let cf = sc.sub("case.json");
            write_case(&cf, case);
            let co = run_child("c13", &cf, "UTC", Duration::from_secs(20));
            if co.timed_out || co.code != Some(0) {
                out.set_fail("child-failed", format!("child exit {:?} signal {:?} timed_out {}; stderr {:?}", co.code, co.signal, co.timed_out, crate::util::lossy(&co.stderr)));
                return out;
            }
            let lines = |b: &[u8]| -> Vec<String> { String::from_utf8_lossy(b).lines().map(str::to_string).collect() };
            let got_err = lines(&co.stderr);
            let got_out = lines(&co.stdout);
            if case.close_stderr {
                out.class("stderr-closed");
                let got_primary: Vec<String> = std::fs::read_to_string(sc.sub("primary.txt")).unwrap_or_default().lines().map(str::to_string).collect();
                if got_primary != exp_primary {
                    out.set_fail("default-channel-mismatch-with-failing-duplicate", format!("stderr closed (every duplicate to it fails): default channel got {got_primary:?}, expected {exp_primary:?}"));
                    return out;
                }
            }
            if !case.close_stderr && got_err != exp_err {
                out.set_fail("stderr-duplicates-mismatch", format!("stderr got {got_err:?} expected {exp_err:?} (initial dup {:?})", case.dup));
                return out;
            }
            if got_out != exp_out {
                out.set_fail("stdout-duplicates-mismatch", format!("stdout got {got_out:?} expected {exp_out:?} (initial dup {:?})", case.dup));
                return out;
            }
        }
        let r = match execute(case, &sc.path, false) {
            Ok(r) => r,
            Err(e) => {
                out.set_fail("execute-failed", e);
                return out;
            }
        };
        if r.primary != exp_primary {
            out.set_fail("default-channel-mismatch", format!("default channel got {:?}, expected {:?}; spec {}", r.primary, exp_primary, case.spec.render()));
            return out;
        }
        for (i, w) in case.writers.iter().enumerate() {
            if r.per_writer[i] != exp_w[i] {
                let sig = match w.kind {
                    WKind::Custom => "custom-writer-delivery-mismatch",
                    WKind::File => "file-writer-delivery-mismatch",
                    _ => "syslog-writer-delivery-mismatch",
                };
                out.set_fail(sig, format!("writer {} ({:?}, ceiling {}) got {:?}, expected {:?}; raw {:?}", w.name, w.kind, w.ceiling, r.per_writer[i], exp_w[i], r.syslog_raw[i]));
                return out;
            }
        }
        let reported = r.errors.matches("bad writer spec").count();
        if reported != exp_unknown {
            out.set_fail("unknown-writer-report-mismatch", format!("{reported} 'bad writer spec' lines on the error channel, expected {exp_unknown}: {:?}", crate::util::lossy(r.errors.as_bytes())));
            return out;
        }
        out.nontrivial = nontrivial;
        out
    }
}
