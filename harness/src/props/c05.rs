//! C05 Run-time specification changes take full effect; push/pop is an exact stack.
use super::c02::{build_logger, check_gate_and_enabled};
use crate::runner::{Outcome, Property, Tier};
use crate::spec::*;
use proptest::prelude::*;
use serde::{Deserialize, Serialize};

#[derive(Clone, Debug, Serialize, Deserialize)]
pub enum SOp {
    SetNew(MSpec),
    /// (text, what the reference parser makes of it if well-formed)
    ParseNew(String),
    Push(MSpec),
    ParsePush(String),
    Pop,
    /// another Logger with this specification is started with Logger::start() although a global
    /// logger is installed already (the worker's switchboard): start() returns an error and must
    /// leave the running logger and the facade's max level as they are
    FailedStart(MSpec),
}

#[derive(Clone, Debug, Serialize, Deserialize)]
pub struct Case {
    pub initial: MSpec,
    pub writers: Vec<(String, u8)>,
    pub ops: Vec<SOp>,
}

pub struct P;

fn op_strat() -> BoxedStrategy<SOp> {
    prop_oneof![
        3 => mspec_strat().prop_map(SOp::SetNew),
        2 => wellformed_string().prop_map(|(t, _)| SOp::ParseNew(t)),
        2 => malformed_string().prop_map(SOp::ParseNew),
        4 => mspec_strat().prop_map(SOp::Push),
        2 => wellformed_string().prop_map(|(t, _)| SOp::ParsePush(t)),
        3 => malformed_string().prop_map(SOp::ParsePush),
        6 => Just(SOp::Pop),
        1 => mspec_strat().prop_map(SOp::FailedStart),
    ]
    .boxed()
}

impl Property for P {
    type Case = Case;
    const ID: &'static str = "C05";
    const LEVEL: &'static str = "exploration";
    fn rule() -> String {
        "model-based: proptest-generated sequences (0-25) of set_new_spec | parse_new_spec | push_temp_spec | parse_and_push_temp_spec | pop_temp_spec with well-formed specs/strings (C02 pool, cosmetic variation) and malformed strings (duplicate '=', inner blank, unknown level, extra '/', bad regex), pops on an empty stack; model = (active spec, stack), a malformed string changes nothing; after EVERY step: Log::enabled over the level x target grid == reference matcher on the model's active spec, log::max_level admits what it accepts, a probe batch through the log macros reaches the recording writer iff matcher+regex accept, and parse_* returns Err iff the reference parser says malformed. Non-trivial = the sequence has a nested push (depth >= 2) followed by a pop, or a malformed parse between a push and its pop; distinct = distinct serialized case".into()
    }
    fn assumptions() -> Vec<String> {
        vec!["strings with an empty module name, two default levels or a repeated module are not generated here (their meaning is undefined; see C17)".into()]
    }
    fn cases(tier: Tier) -> u64 {
        match tier {
            Tier::Quick => 20_000,
            Tier::Thorough => 1_000_000,
        }
    }
    fn chunk(_t: Tier) -> u64 {
        400
    }
    fn worker_init() {
        install_switchboard();
    }
    fn strategy(_tier: Tier) -> BoxedStrategy<Case> {
        (
            mspec_strat(),
            prop::collection::btree_map(prop_oneof![Just("W1".to_string()), Just("W2".to_string())], 0u8..6, 0..2),
            prop::collection::vec(op_strat(), 0..25),
        )
            .prop_map(|(initial, writers, ops)| Case {
                initial,
                writers: writers.into_iter().collect(),
                ops,
            })
            .boxed()
    }

    fn run(case: &Case) -> Outcome {
        let mut out = Outcome::ok();
        let b = match build_logger(&case.initial, false, &case.writers, false) {
            Ok(b) => b,
            Err(e) => return Outcome::fail("build-failed", e),
        };
        let mut handle = b.handle.clone();
        plug(Some(b.log.clone()));
        let mut active = case.initial.clone();
        let mut stack: Vec<MSpec> = Vec::new();
        let mut max_depth = 0;
        let mut nested_then_pop = false;
        let mut malformed_inside = false;
        let mut steps = 0u64;
        for (i, op) in case.ops.iter().enumerate() {
            let desc;
            match op {
                SOp::SetNew(s) => {
                    desc = format!("set_new_spec({})", s.render());
                    handle.set_new_spec(s.build_with_builder());
                    active = s.clone();
                }
                SOp::ParseNew(t) => {
                    desc = format!("parse_new_spec({t:?})");
                    let rp = ref_parse(t);
                    let r = handle.parse_new_spec(t);
                    if r.is_err() != rp.malformed {
                        out.set_fail("parse-result-mismatch", format!("step {i} {desc}: returned {}, reference parser malformed={}", if r.is_err() { "Err" } else { "Ok" }, rp.malformed));
                        break;
                    }
                    if !rp.malformed {
                        active = rp.spec;
                    } else if !stack.is_empty() {
                        malformed_inside = true;
                    }
                }
                SOp::Push(s) => {
                    desc = format!("push_temp_spec({})", s.render());
                    handle.push_temp_spec(s.build_with_builder());
                    stack.push(active.clone());
                    active = s.clone();
                }
                SOp::ParsePush(t) => {
                    desc = format!("parse_and_push_temp_spec({t:?})");
                    let rp = ref_parse(t);
                    let r = handle.parse_and_push_temp_spec(t);
                    if r.is_err() != rp.malformed {
                        out.set_fail("parse-result-mismatch", format!("step {i} {desc}: returned {}, reference parser malformed={}", if r.is_err() { "Err" } else { "Ok" }, rp.malformed));
                        break;
                    }
                    if !rp.malformed {
                        stack.push(active.clone());
                        active = rp.spec;
                    } else if !stack.is_empty() {
                        malformed_inside = true;
                    }
                }
                SOp::FailedStart(sp) => {
                    desc = format!("a second Logger::start() with {} (fails: a global logger is installed)", sp.render());
                    let (w, _r) = Recorder::new(5);
                    match flexi_logger::Logger::with(sp.build_with_builder())
                        .log_to_writer(Box::new(w))
                        .error_channel(flexi_logger::ErrorChannel::DevNull)
                        .panic_if_error_channel_is_broken(false)
                        .start()
                    {
                        Err(_) => {}
                        Ok(_) => {
                            out.set_fail("harness-no-global-logger", "Logger::start() succeeded: the worker's switchboard logger is not installed");
                            break;
                        }
                    }
                }
                SOp::Pop => {
                    desc = "pop_temp_spec()".to_string();
                    handle.pop_temp_spec();
                    if let Some(prev) = stack.pop() {
                        if max_depth >= 2 {
                            nested_then_pop = true;
                        }
                        active = prev;
                    }
                }
            }
            max_depth = max_depth.max(stack.len());
            steps += 1;
            let targets = grid_targets(&active.names());
            if let Err((sig, msg)) = check_gate_and_enabled(&b, &active, &targets) {
                out.set_fail(format!("after-reconfig:{sig}"), format!("after step {i} {desc} (model stack depth {}): {msg}", stack.len()));
                break;
            }
            // probe batch through the macro path
            let before = b.primary.handed.lock().unwrap().len();
            let mut expected = Vec::new();
            for t in targets.iter().take(6) {
                for l in [1u8, 3, 5] {
                    for m in ["a", "b 1"] {
                        macro_log(lvl(l), t, m);
                        if active.enabled(l, t) && active.text_ok(m) {
                            expected.push((l, t.clone(), m.to_string()));
                        }
                    }
                }
            }
            let got: Vec<(u8, String, String)> = b.primary.handed.lock().unwrap()[before..]
                .iter()
                .map(|g| (g.level, g.target.clone(), g.msg.clone()))
                .collect();
            if got != expected {
                out.set_fail(
                    "after-reconfig:written-set-mismatch",
                    format!("after step {i} {desc}: probe records written {got:?}, expected {expected:?}; model active spec {}", active.render()),
                );
                break;
            }
        }
        plug(None);
        b.handle.shutdown();
        out.weight = steps.max(1);
        if max_depth >= 2 {
            out.class("nested-push");
        }
        if malformed_inside {
            out.class("malformed-between-push-and-pop");
        }
        if case.ops.iter().any(|o| matches!(o, SOp::Pop)) && case.ops.iter().take_while(|o| !matches!(o, SOp::Push(_) | SOp::ParsePush(_))).any(|o| matches!(o, SOp::Pop)) {
            out.class("pop-on-empty-stack");
        }
        if (nested_then_pop || (malformed_inside && case.ops.iter().any(|o| matches!(o, SOp::Pop)))) && out.fail.is_none() {
            out.nontrivial = true;
        }
        out
    }
}
