//! C08 Size criterion: rotate exactly when the current file already exceeds the limit.
use super::part::{run_partition, Case, RunSpec};
use crate::fscn::*;
use crate::hist::*;
use crate::runner::{Outcome, Property, Tier};
use crate::vtime::vinst_strat;
use proptest::prelude::*;

pub struct P;

fn nam_strat() -> BoxedStrategy<Nam> {
    // Size criterion is documented as unsupported for custom formats without a current infix
    naming_strat()
        .prop_map(|n| match n {
            Nam::Custom { current, fmt } if current.as_deref().is_none_or(str::is_empty) => Nam::Custom {
                current: Some("cur".into()),
                fmt,
            },
            other => other,
        })
        .boxed()
}

fn mode_strat() -> BoxedStrategy<Mode> {
    prop_oneof![3 => sync_mode_strat(), 1 => async_mode_strat()].boxed()
}

impl Property for P {
    type Case = Case;
    const ID: &'static str = "C08";
    const LEVEL: &'static str = "exploration";
    fn rule() -> String {
        "proptest-generated cases: size limit N in 0..80 x record-length sequences biased to {0,1,N-2..N+2,3N+1, buffer capacity +-1} (line ending included) x LF/CRLF x all write modes incl. async x naming x 1-2 runs (the second appends onto whatever the first left) x AgeOrSize with a frozen clock; oracle: ordered list of file contents == reference partition model (rotate iff size_before_write > N, size seeded from the appended file). Non-trivial = the same case has a write at size == N (no rotation) and a write at size > N (rotation), or an append start onto a file already larger than N; distinct = distinct serialized case".into()
    }
    fn assumptions() -> Vec<String> {
        vec![
            "forced rotations are not generated in async mode (trigger_rotation acts on the state while records are still queued; not part of this property)".into(),
            "TimestampsCustomFormat without current infix is excluded: its documentation forbids the size criterion".into(),
        ]
    }
    fn cases(tier: Tier) -> u64 {
        match tier {
            Tier::Quick => 30_000,
            Tier::Thorough => 1_000_000,
        }
    }
    fn strategy(_tier: Tier) -> BoxedStrategy<Case> {
        (
            0u64..80,
            prop::option::weighted(0.25, age_strat()),
            nam_strat(),
            mode_strat(),
            any::<bool>(),
            suffix_strat(),
            name_parts(false),
            prop::bool::weighted(0.5),
        )
            .prop_flat_map(|(n, age, nam, mode, crlf, suffix, (basename, discr), via_logger)| {
                let crit = match age {
                    Some(a) => Crit::AgeOrSize(a, n),
                    None => Crit::Size(n),
                };
                let cfg = FileCfg {
                    basename,
                    discr,
                    suffix,
                    start_ts: false,
                    rot: Some(Rot { crit, nam, cln: Cln::Never }),
                    mode,
                    crlf,
                    utc: false,
                    symlink: false,
                    bg_cleanup: false,
                    via_logger,
                    build_variant: 0,
                };
                let le = cfg.line_ending().len();
                let ops = crate::hist::ops_strat_f(Some(n), mode.buffer_cap(), le, false, 40, true);
                let is_async = mode.is_async();
                (
                    Just(cfg),
                    vinst_strat(),
                    prop::collection::vec((ops, prop_oneof![Just(0i64), Just(500i64), Just(1000i64), Just(86_400_000i64)]), 1..3),
                )
                    .prop_map(move |(cfg, t0, runs)| Case {
                        tz: crate::vtime::tz_name(),
                        cfg,
                        t0,
                        runs: runs
                            .into_iter()
                            .enumerate()
                            .map(|(i, (ops, gap_ms))| RunSpec {
                                append: i > 0,
                                ops: if is_async {
                                    ops.into_iter().filter(|o| !matches!(o, Op::Rotate)).collect()
                                } else {
                                    ops
                                },
                                gap_ms,
                            })
                            .collect(),
                        realtime_ms: 0,
                        aligned_starts: 0,
                    })
            })
            .boxed()
    }

    fn run(case: &Case) -> Outcome {
        let r = run_partition(case, false);
        let mut out = r.out;
        let m = &r.model;
        let n = case.cfg.rot.as_ref().and_then(|r| r.crit.size()).unwrap_or(0);
        if m.exact_limit_hits > 0 && m.over_limit_hits > 0 {
            out.nontrivial = true;
            out.class("exact-and-over-limit");
        }
        if case.runs.len() > 1 {
            out.class("append-restart");
        }
        // append start onto a file larger than N
        if m.chunks.iter().any(|c| c.run < m.run && c.closed_by_criterion && c.bytes.len() as u64 > n)
            && case.runs.len() > 1
        {
            out.class("append-start-over-limit");
        }
        if case.cfg.crlf {
            out.class("crlf");
        }
        if m.rotations_by_size > 0 {
            out.class("size-rotation");
        }
        // corollaries, asserted directly on the observed files
        if out.fail.is_none() {
            let le = case.cfg.line_ending();
            for (i, f) in r.files.iter().enumerate() {
                let is_last = i + 1 == r.files.len();
                // size without its final record must not exceed N
                let content = &f.content;
                if content.is_empty() {
                    continue;
                }
                let body = &content[..content.len() - le.len().min(content.len())];
                let last_start = match find_last(body, le) {
                    Some(p) => p + le.len(),
                    None => 0,
                };
                if last_start as u64 > n {
                    out.set_fail(
                        "record-appended-to-full-file",
                        format!("file {} already held {last_start} > {n} bytes when its last record was appended", f.name),
                    );
                }
                let _ = is_last;
            }
        }
        out
    }
}

fn find_last(hay: &[u8], needle: &[u8]) -> Option<usize> {
    if needle.is_empty() || hay.len() < needle.len() {
        return None;
    }
    (0..=hay.len() - needle.len()).rev().find(|&i| &hay[i..i + needle.len()] == needle)
}
