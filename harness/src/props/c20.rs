//! C20 Each record is framed as format output plus one line ending; formats faithful.
use crate::fscn::{Mode, FileCfg, async_mode_strat, sync_mode_strat};
use crate::hooks::{h, ns_to_local};
use crate::runner::{Outcome, Property, Tier};
use crate::spec::{install_switchboard, lvl, plug, Recorder};
use crate::util::{lossy, Scratch};
use crate::vtime::{vinst_strat, VInst};
use flexi_logger::writers::FileLogWriter;
use flexi_logger::{ErrorChannel, FileSpec, FormatFunction, LogSpecification, Logger};
use proptest::prelude::*;
use serde::{Deserialize, Serialize};
use std::sync::Arc;

#[derive(Clone, Copy, Debug, Serialize, Deserialize, PartialEq, Eq)]
pub enum Fmt {
    Default,
    Opt,
    Detailed,
    WithThread,
    ColoredDefault,
    ColoredOpt,
    ColoredDetailed,
    ColoredWithThread,
    Json,
}
impl Fmt {
    fn func(self) -> FormatFunction {
        match self {
            Fmt::Default => flexi_logger::default_format,
            Fmt::Opt => flexi_logger::opt_format,
            Fmt::Detailed => flexi_logger::detailed_format,
            Fmt::WithThread => flexi_logger::with_thread,
            Fmt::ColoredDefault => flexi_logger::colored_default_format,
            Fmt::ColoredOpt => flexi_logger::colored_opt_format,
            Fmt::ColoredDetailed => flexi_logger::colored_detailed_format,
            Fmt::ColoredWithThread => flexi_logger::colored_with_thread,
            Fmt::Json => flexi_logger::json_format,
        }
    }
    fn plain(self) -> Fmt {
        match self {
            Fmt::ColoredDefault => Fmt::Default,
            Fmt::ColoredOpt => Fmt::Opt,
            Fmt::ColoredDetailed => Fmt::Detailed,
            Fmt::ColoredWithThread => Fmt::WithThread,
            o => o,
        }
    }
    fn colored(self) -> bool {
        self.plain() != self
    }
    fn has_ts(self) -> bool {
        !matches!(self.plain(), Fmt::Default)
    }
}

#[derive(Clone, Debug, Serialize, Deserialize)]
pub enum KvVal {
    I(i64),
    S(String),
    B(bool),
}

#[derive(Clone, Debug, Serialize, Deserialize)]
pub struct Rc {
    pub msg: String,
    pub level: u8,
    pub module: Option<String>,
    pub file: Option<String>,
    pub line: Option<u32>,
    pub kv: Vec<(String, KvVal)>,
    /// messages logged from inside the Display implementation of the record's argument
    pub inner: Vec<String>,
    /// the Display implementation of the record's argument panics after it has written a part
    /// of its text (the harness catches the panic): the record is not written, and the records
    /// that follow are not affected
    #[serde(default)]
    pub panics: bool,
}

#[derive(Clone, Debug, Serialize, Deserialize)]
pub struct Case {
    pub tz: String,
    pub fmt: Fmt,
    pub crlf: bool,
    pub mode: Mode,
    pub t0: VInst,
    /// the virtual clock advances by 1 microsecond per reading
    pub tick: bool,
    /// additional FileLogWriter "A" + recording writer next to the file (records go to {A,_Default})
    pub multi: bool,
    pub recs: Vec<Rc>,
    /// Some: the case runs in a child process with this output (stdout, stderr, memory buffer,
    /// or file + duplication to stderr/stdout)
    #[serde(default)]
    pub std_out: Option<StdKind>,
    /// Logger::use_utc() (a process-wide setting: only in cases that run in a child process)
    #[serde(default)]
    pub utc: bool,
    /// (child-process cases) LoggerHandle::flush() after every record
    #[serde(default)]
    pub flush_between: bool,
    /// (child-process cases with a log file) the FileSpec keeps its default start time in the
    /// file name instead of suppressing it
    #[serde(default)]
    pub file_start_ts: bool,
}

#[derive(Clone, Copy, Debug, Serialize, Deserialize, PartialEq, Eq)]
pub enum StdKind {
    Stdout,
    Stderr,
    Buffer,
    FileDupErr,
    FileDupOut,
}

pub struct P;

/// pure: the renderings expected for the records of `case`, given the virtual time `base` at
/// which the first record reads the clock
fn expected_segs(case: &Case, base: i64, thread: &str, needs_ts: bool) -> Vec<Seg> {
    let step: i64 = if case.tick { 1_000 } else { 0 };
    let mut t = base;
    let mut segs = Vec::new();
    let seg_of = |r: &Rc, text: &str, t: i64| -> Seg {
        let ts = if case.utc { ns_to_local(t).with_timezone(&chrono::Utc).format(TS_FMT).to_string() } else { ns_to_local(t).format(TS_FMT).to_string() };
        if case.fmt == Fmt::Json {
            Seg::Json { rc: r.clone(), text: text.to_string(), ts }
        } else {
            Seg::Exact(render(case.fmt, r, text, &ts, thread).into_bytes())
        }
    };
    for r in &case.recs {
        let text = if r.inner.is_empty() { r.msg.clone() } else { format!("{}<R>", r.msg) };
        let outer_t = t;
        if needs_ts {
            t += step;
        }
        for m in &r.inner {
            let (list, reads) = inner_records(m);
            for (text, line, off) in list {
                let ir = Rc {
                    msg: text.clone(),
                    level: 3,
                    module: Some(module_path!().to_string()),
                    file: Some(file!().to_string()),
                    line: Some(line),
                    kv: vec![],
                    inner: vec![],
                    panics: false,
                };
                segs.push(seg_of(&ir, &text, if needs_ts { t + off * step } else { t }));
            }
            if needs_ts {
                t += reads * step;
            }
        }
        segs.push(seg_of(r, &text, outer_t));
    }
    segs
}

fn inner_line_probe() {
    // make INNER_LINE known without logging anything: format a Recursive with no inner record
    // is not enough (the line is stored inside the loop), so log one inner record into nowhere
    plug(None);
    let _ = format!("{}", Recursive { inner: vec!["probe".into()] });
    let _ = format!("{}", InnerArg(">probe"));
}

#[derive(Serialize, Deserialize)]
struct ChildReport {
    base: i64,
    thread: String,
    snapshot: Option<String>,
}

/// `flv child c20 <case>`
pub fn child_main(file: &std::path::Path) -> ! {
    let case: Case = crate::child::read_case(file);
    let dir = file.parent().unwrap().join("childlogs");
    install_switchboard();
    h().set_time(Some(case.t0.to_ns()));
    if case.tick {
        h().set_tick(1_000);
    }
    let mode = match case.mode {
        Mode::BufAndFlush(c, _) => Mode::BufDontFlush(c),
        Mode::Async { pool, msg, .. } => Mode::Async { pool, msg, flush_ms: 0 },
        m => m,
    };
    let l = Logger::with(LogSpecification::trace())
        .format(case.fmt.func())
        .write_mode(mode.to_flexi())
        .error_channel(ErrorChannel::DevNull)
        .panic_if_error_channel_is_broken(false);
    let l = if case.utc { l.use_utc() } else { l };
    let l = match case.std_out.unwrap_or(StdKind::Stdout) {
        StdKind::Stdout => l.log_to_stdout(),
        StdKind::Stderr => l.log_to_stderr(),
        StdKind::Buffer => l.log_to_buffer(10_000_000, Some(case.fmt.func())),
        StdKind::FileDupErr | StdKind::FileDupOut => {
            let fs = FileSpec::default().directory(&dir).basename("out");
            let fs = if case.file_start_ts { fs } else { fs.suppress_timestamp() };
            let l = l.log_to_file(fs);
            if case.std_out == Some(StdKind::FileDupErr) {
                l.duplicate_to_stderr(flexi_logger::Duplicate::All)
            } else {
                l.duplicate_to_stdout(flexi_logger::Duplicate::All)
            }
        }
    };
    let (log, handle) = match l.build() {
        Ok(x) => x,
        Err(e) => {
            eprintln!("CHILD-ERROR {e:?}");
            crate::child::exit_now(7)
        }
    };
    let log: Arc<dyn log::Log> = Arc::from(log);
    plug(Some(log.clone()));
    let base = h().time().unwrap();
    for r in &case.recs {
        log_rec(&*log, r, "flv");
        if case.flush_between {
            handle.flush();
        }
    }
    let mut snapshot = None;
    if case.std_out == Some(StdKind::Buffer) {
        let mut snap = flexi_logger::Snapshot::new();
        let _ = handle.update_snapshot(&mut snap);
        snapshot = Some(snap.text);
    }
    plug(None);
    handle.shutdown();
    let rep = ChildReport { base, thread: std::thread::current().name().unwrap_or("<unnamed>").to_string(), snapshot };
    let _ = std::fs::write(file.parent().unwrap().join("report.json"), serde_json::to_vec(&rep).unwrap());
    crate::child::exit_now(0)
}

fn run_std(case: &Case, kind: StdKind) -> Outcome {
    let mut out = Outcome::ok();
    out.class(&format!("out:{kind:?}"));
    out.class(&format!("fmt:{:?}", case.fmt));
    out.class(case.mode.label());
    let sc = Scratch::new("c20c");
    let cf = sc.sub("case.json");
    crate::child::write_case(&cf, case);
    inner_line_probe();
    let co = crate::child::run_child("c20", &cf, &case.tz, std::time::Duration::from_secs(8));
    let recursive = case.recs.iter().any(|r| !r.inner.is_empty());
    if co.timed_out {
        return Outcome::fail(
            if recursive { "hang-on-recursive-logging" } else { "hang" },
            format!("the child process did not finish within 8 s ({kind:?}, {:?}, recursive records: {recursive})", case.mode),
        );
    }
    if co.code != Some(0) {
        return Outcome::fail("child-failed", format!("exit {:?} signal {:?}: {}", co.code, co.signal, lossy(&co.stderr)));
    }
    let rep: ChildReport = match std::fs::read(sc.sub("report.json")).ok().and_then(|b| serde_json::from_slice(&b).ok()) {
        Some(r) => r,
        None => return Outcome::fail("child-failed", "no report"),
    };
    let needs_ts = case.fmt.has_ts();
    let segs = expected_segs(case, rep.base, &rep.thread, needs_ts);
    let r = match kind {
        StdKind::Stdout => compare_stream(case, "stdout", &co.stdout, &segs, b"\n", &rep.thread),
        StdKind::Stderr => compare_stream(case, "stderr", &co.stderr, &segs, b"\n", &rep.thread),
        StdKind::Buffer => compare_stream(case, "buffer snapshot", rep.snapshot.clone().unwrap_or_default().as_bytes(), &segs, b"\n", &rep.thread),
        StdKind::FileDupErr | StdKind::FileDupOut => {
            // (with a start time in the name: the only file in the directory)
            let file = if case.file_start_ts {
                std::fs::read_dir(sc.sub("childlogs")).ok().and_then(|mut d| d.next()).and_then(|e| e.ok()).and_then(|e| std::fs::read(e.path()).ok()).unwrap_or_default()
            } else {
                std::fs::read(sc.sub("childlogs/out.log")).unwrap_or_default()
            };
            compare_stream(case, "log file", &file, &segs, b"\n", &rep.thread).and_then(|()| {
                let dupl = if kind == StdKind::FileDupErr { &co.stderr } else { &co.stdout };
                compare_stream(case, "duplicate stream", dupl, &segs, b"\n", &rep.thread).map_err(|(s, m)| (format!("duplicate:{s}"), m))
            })
        }
    };
    if let Err((sig, msg)) = r {
        out.set_fail(sig, msg);
    }
    if recursive {
        out.class("recursive");
    }
    if case.tick {
        out.class("ticking-clock");
    }
    if case.utc {
        out.class("use_utc");
    }
    if case.flush_between {
        out.class("flush-after-every-record");
    }
    out.nontrivial = recursive || matches!(kind, StdKind::FileDupErr | StdKind::FileDupOut);
    out
}

const TS_FMT: &str = "%Y-%m-%d %H:%M:%S%.6f %:z";

fn level_str(l: u8) -> &'static str {
    ["", "ERROR", "WARN", "INFO", "DEBUG", "TRACE"][l as usize]
}

fn kv_text(kv: &[(String, KvVal)]) -> String {
    if kv.is_empty() {
        return String::new();
    }
    let parts: Vec<String> = kv
        .iter()
        .map(|(k, v)| match v {
            KvVal::I(i) => format!("{k}={i}"),
            KvVal::S(s) => format!("{k}={s:?}"),
            KvVal::B(b) => format!("{k}={b}"),
        })
        .collect();
    format!("{{{}}} ", parts.join(", "))
}

/// reference renderer of the plain text formats (from their documented layout)
fn render(fmt: Fmt, r: &Rc, text: &str, ts: &str, thread: &str) -> String {
    let lv = level_str(r.level);
    let module = r.module.as_deref().unwrap_or("<unnamed>");
    let file = r.file.as_deref().unwrap_or("<unnamed>");
    let line = r.line.unwrap_or(0);
    let kv = kv_text(&r.kv);
    match fmt.plain() {
        Fmt::Default => format!("{lv} [{module}] {kv}{text}"),
        Fmt::Opt => format!("[{ts}] {lv} [{file}:{line}] {kv}{text}"),
        Fmt::Detailed => format!("[{ts}] {lv} [{module}] {file}:{line}: {kv}{text}"),
        Fmt::WithThread => format!("[{ts}] T[{thread}] {lv} [{file}:{line}] {kv}{text}"),
        _ => unreachable!(),
    }
}

fn strip_ansi(b: &[u8]) -> Vec<u8> {
    let mut out = Vec::new();
    let mut i = 0;
    while i < b.len() {
        if b[i] == 0x1b && i + 1 < b.len() && b[i + 1] == b'[' {
            let mut j = i + 2;
            while j < b.len() && (b[j].is_ascii_digit() || b[j] == b';') {
                j += 1;
            }
            if j < b.len() && b[j] == b'm' {
                i = j + 1;
                continue;
            }
        }
        out.push(b[i]);
        i += 1;
    }
    out
}

struct Recursive {
    inner: Vec<String>,
}
static INNER_LINE: std::sync::atomic::AtomicU32 = std::sync::atomic::AtomicU32::new(0);
impl std::fmt::Display for Recursive {
    fn fmt(&self, f: &mut std::fmt::Formatter) -> std::fmt::Result {
        for m in &self.inner {
            { INNER_LINE.store(line!(), std::sync::atomic::Ordering::SeqCst); log::info!(target: "inner", "{}", InnerArg(m)); }
        }
        f.write_str("<R>")
    }
}
/// argument of an inner record: an inner message ">xyz" stands for an inner record that logs the
/// innermost record "xyz" from its own Display implementation (two levels of nesting) and
/// renders as "<N>"
struct InnerArg<'a>(&'a str);
static INNER2_LINE: std::sync::atomic::AtomicU32 = std::sync::atomic::AtomicU32::new(0);
impl std::fmt::Display for InnerArg<'_> {
    fn fmt(&self, f: &mut std::fmt::Formatter) -> std::fmt::Result {
        match self.0.strip_prefix('>') {
            Some(x) => {
                { INNER2_LINE.store(line!(), std::sync::atomic::Ordering::SeqCst); log::info!(target: "inner", "{}", x); }
                f.write_str("<N>")
            }
            None => f.write_str(self.0),
        }
    }
}
/// the renderings an inner message stands for, in the order in which they are written out:
/// (text, source line, offset of its clock reading in steps), and the number of clock readings
fn inner_records(m: &str) -> (Vec<(String, u32, i64)>, i64) {
    let l1 = INNER_LINE.load(std::sync::atomic::Ordering::SeqCst);
    match m.strip_prefix('>') {
        Some(x) => (vec![(x.to_string(), INNER2_LINE.load(std::sync::atomic::Ordering::SeqCst), 1), ("<N>".to_string(), l1, 0)], 2),
        None => (vec![(m.to_string(), l1, 0)], 1),
    }
}

enum Seg {
    Exact(Vec<u8>),
    Json { rc: Rc, text: String, ts: String },
}

fn msg_strat() -> BoxedStrategy<String> {
    prop_oneof![
        1 => Just(String::new()),
        3 => "[ -~]{0,30}",
        1 => Just("line1\nline2".to_string()),
        1 => Just("cr\r\nlf".to_string()),
        1 => Just("quote\" back\\slash 'single'".to_string()),
        1 => Just("tab\tbell\u{7}nul\u{0}esc\u{1b}[31mred\u{1b}[0m".to_string()),
        1 => Just("ünïcödé 日本語 🎉".to_string()),
        1 => Just("{braces} {} {{x}} [b] }{".to_string()),
        2 => "\\PC{0,20}",
        1 => any::<String>(),
    ]
    .boxed()
}

fn rc_strat(allow_inner: bool) -> BoxedStrategy<Rc> {
    (
        msg_strat(),
        1u8..6,
        prop::option::weighted(0.7, prop_oneof![Just("my::module".to_string()), Just("m".to_string()), Just("ü::x".to_string())]),
        prop::option::weighted(0.7, prop_oneof![Just("src/main.rs".to_string()), Just("a b.rs".to_string()), Just("C:\\x\\y.rs".to_string())]),
        prop::option::weighted(0.7, prop_oneof![Just(0u32), Just(1u32), Just(4294967295u32), 1u32..5000]),
        prop::collection::vec(
            (
                prop_oneof![Just("a".to_string()), Just("b".to_string()), Just("key_3".to_string())],
                prop_oneof![any::<i64>().prop_map(KvVal::I), "[ -~]{0,8}".prop_map(KvVal::S), Just(KvVal::S("q\"\\\n".into())), any::<bool>().prop_map(KvVal::B)],
            ),
            0..3,
        ),
        if allow_inner { prop::collection::vec(prop_oneof![3 => "[a-z]{1,6}", 1 => ">[a-z]{1,6}"], 0..3).boxed() } else { Just(Vec::new()).boxed() },
    )
        .prop_map(|(msg, level, module, file, line, kv, inner)| {
            // keys unique (a map in JSON)
            let mut seen = std::collections::BTreeSet::new();
            let kv = kv.into_iter().filter(|(k, _)| seen.insert(k.clone())).collect();
            Rc { msg, level, module, file, line, kv, inner, panics: false }
        })
        .boxed()
}

fn log_rec(log: &dyn log::Log, r: &Rc, target: &str) {
    let kvs: Vec<(&str, log::kv::Value)> = r
        .kv
        .iter()
        .map(|(k, v)| {
            (
                k.as_str(),
                match v {
                    KvVal::I(i) => log::kv::Value::from(*i),
                    KvVal::S(s) => log::kv::Value::from(s.as_str()),
                    KvVal::B(b) => log::kv::Value::from(*b),
                },
            )
        })
        .collect();
    let kvs_ref: &[(&str, log::kv::Value)] = &kvs;
    if r.panics {
        struct Panicker;
        impl std::fmt::Display for Panicker {
            fn fmt(&self, f: &mut std::fmt::Formatter) -> std::fmt::Result {
                f.write_str("partial text")?;
                panic!("flv: Display implementation panics on purpose");
            }
        }
        let res = std::panic::catch_unwind(std::panic::AssertUnwindSafe(|| {
            log.log(
                &log::Record::builder()
                    .args(format_args!("{}{}", r.msg, Panicker))
                    .level(lvl(r.level))
                    .target(target)
                    .module_path(r.module.as_deref())
                    .file(r.file.as_deref())
                    .line(r.line)
                    .key_values(&kvs_ref)
                    .build(),
            );
        }));
        let _ = res;
        // the panic was provoked and caught here: it is not a finding
        let _ = crate::runner::take_panics();
        return;
    }
    if r.inner.is_empty() {
        log.log(
            &log::Record::builder()
                .args(format_args!("{}", r.msg))
                .level(lvl(r.level))
                .target(target)
                .module_path(r.module.as_deref())
                .file(r.file.as_deref())
                .line(r.line)
                .key_values(&kvs_ref)
                .build(),
        );
    } else {
        let rv = Recursive { inner: r.inner.clone() };
        log.log(
            &log::Record::builder()
                .args(format_args!("{}{}", r.msg, rv))
                .level(lvl(r.level))
                .target(target)
                .module_path(r.module.as_deref())
                .file(r.file.as_deref())
                .line(r.line)
                .key_values(&kvs_ref)
                .build(),
        );
    }
}

/// splits `bytes` into the framed records given the expected renderings' lengths is not
/// possible for unknown renderings; instead we compare whole expected streams.
fn check_json_line(line: &[u8], r: &Rc, text: &str, ts: &str, thread: &str) -> Result<(), String> {
    if line.contains(&b'\n') || line.contains(&b'\r') {
        return Err("JSON output is not a single line".into());
    }
    let v: serde_json::Value = serde_json::from_slice(line).map_err(|e| format!("JSON output does not parse: {e}: {:?}", lossy(line)))?;
    let o = v.as_object().ok_or("JSON output is not an object")?;
    let get = |k: &str| o.get(k).cloned().unwrap_or(serde_json::Value::Null);
    if get("level") != serde_json::json!(level_str(r.level)) {
        return Err(format!("level decodes to {}", get("level")));
    }
    if get("text") != serde_json::json!(text) {
        return Err(format!("text decodes to {} instead of {:?}", get("text"), text));
    }
    if get("module_path") != serde_json::json!(r.module) {
        return Err(format!("module_path decodes to {} instead of {:?}", get("module_path"), r.module));
    }
    if get("file") != serde_json::json!(r.file) {
        return Err(format!("file decodes to {} instead of {:?}", get("file"), r.file));
    }
    if get("line") != serde_json::json!(r.line) {
        return Err(format!("line decodes to {} instead of {:?}", get("line"), r.line));
    }
    if get("timestamp") != serde_json::json!(ts) {
        return Err(format!("timestamp decodes to {} instead of {ts:?}", get("timestamp")));
    }
    if get("thread") != serde_json::json!(thread) {
        return Err(format!("thread decodes to {} instead of {thread:?}", get("thread")));
    }
    let want_kv = if r.kv.is_empty() {
        serde_json::Value::Null
    } else {
        let mut m = serde_json::Map::new();
        for (k, v) in &r.kv {
            m.insert(
                k.clone(),
                match v {
                    KvVal::I(i) => serde_json::json!(i),
                    KvVal::S(s) => serde_json::json!(s),
                    KvVal::B(b) => serde_json::json!(b),
                },
            );
        }
        serde_json::Value::Object(m)
    };
    if get("kv") != want_kv {
        return Err(format!("kv decodes to {} instead of {want_kv}", get("kv")));
    }
    Ok(())
}

impl Property for P {
    type Case = Case;
    const ID: &'static str = "C20";
    const LEVEL: &'static str = "exploration";
    fn rule() -> String {
        "proptest-generated records (message: empty, printable ASCII, multi-line, CRLF inside, quotes/backslashes, control characters incl. NUL and ESC sequences, non-ASCII, braces, arbitrary Unicode; module/file/line present or absent; 0-2 key-value pairs of int/string/bool) x every provided format function (default, opt, detailed, with_thread, their coloured variants, json) x LF/CRLF x Direct/Buffered/Async write modes x a virtual clock (optionally advancing 1 microsecond per reading); outputs: the log file, and in 40% of the cases additionally a FileLogWriter registered as additional writer plus a recording writer next to the file (record addressed to {A,_Default}); 30% of single-output cases log 1-2 inner records from the Display implementation of the argument. Oracle: file bytes == concatenation of (reference rendering + exactly one configured line ending) with inner records before the outer one; reference renderer per plain format written from the documented layout, coloured output minus ANSI SGR sequences == plain rendering, JSON output is one line that parses and whose level/module_path/file/line/text/thread/timestamp/kv decode to the generated values; every output of one record shows the same timestamp (the one the recording writer saw). Non-trivial = a message with a line break, quote/backslash, control or non-ASCII character AND at least 2 outputs compared, or a recursive record; distinct = distinct serialized case".into()
    }
    fn assumptions() -> Vec<String> {
        vec![
            "the palette is the built-in default (never set in the harness processes)".into(),
            "key-value pairs are rendered as key=Debug(value) in the text formats (observed layout, documented only by example)".into(),
        ]
    }
    fn cases(tier: Tier) -> u64 {
        match tier {
            Tier::Quick => 80_000,
            Tier::Thorough => 1_000_000,
        }
    }
    fn worker_init() {
        install_switchboard();
    }
    fn strategy(_tier: Tier) -> BoxedStrategy<Case> {
        (
            prop_oneof![
                Just(Fmt::Default), Just(Fmt::Opt), Just(Fmt::Detailed), Just(Fmt::WithThread),
                Just(Fmt::ColoredDefault), Just(Fmt::ColoredOpt), Just(Fmt::ColoredDetailed), Just(Fmt::ColoredWithThread),
                Just(Fmt::Json), Just(Fmt::Json),
            ],
            any::<bool>(),
            prop_oneof![3 => sync_mode_strat(), 1 => async_mode_strat()],
            vinst_strat(),
            any::<bool>(),
            prop::bool::weighted(0.4),
            prop::option::weighted(0.08, prop_oneof![Just(StdKind::Stdout), Just(StdKind::Stderr), Just(StdKind::Buffer), Just(StdKind::FileDupErr), Just(StdKind::FileDupOut)]),
            prop::bool::weighted(0.4),
            prop::bool::weighted(0.4),
        )
            .prop_flat_map(|(fmt, crlf, mode, t0, tick, multi, std_out, utc, flush_between)| {
                let utc = utc && std_out.is_some();
                let flush_between = flush_between && std_out.is_some();

                let dup = matches!(std_out, Some(StdKind::FileDupErr | StdKind::FileDupOut));
                // (the bit of `multi` has no meaning for child-process cases: reused)
                let file_start_ts = multi && matches!(std_out, Some(StdKind::FileDupErr | StdKind::FileDupOut));
                let multi = multi && std_out.is_none();
                let crlf = crlf && std_out.is_none();
                let allow_inner = !multi && !dup;
                let panicking = if std_out.is_none() && !multi { prop::option::weighted(0.15, any::<prop::sample::Index>()).boxed() } else { Just(None).boxed() };
                (Just((fmt, crlf, mode, t0, tick, multi, std_out, utc, flush_between, file_start_ts)), prop::collection::vec(rc_strat(allow_inner), 1..8), panicking)
            })
            .prop_map(|((fmt, crlf, mode, t0, tick, multi, std_out, utc, flush_between, file_start_ts), mut recs, panicking)| {
                if let Some(ix) = panicking {
                    let i = ix.index(recs.len());
                    recs[i].panics = true;
                    recs[i].inner.clear();
                }
                (fmt, crlf, mode, t0, tick, multi, std_out, utc, flush_between, file_start_ts, recs)
            })
            .prop_map(|(fmt, crlf, mode, t0, tick, multi, std_out, utc, flush_between, file_start_ts, recs)| Case {
                tz: crate::vtime::tz_name(),
                fmt,
                crlf,
                mode,
                t0,
                tick,
                multi,
                recs,
                std_out,
                utc,
                flush_between,
                file_start_ts,
            })
            .boxed()
    }

    fn run(case: &Case) -> Outcome {
        if let Some(kind) = case.std_out {
            return run_std(case, kind);
        }
        let mut out = Outcome::ok();
        let sc = Scratch::new("c20");
        let dir = sc.sub("logs");
        let le: &[u8] = if case.crlf { b"\r\n" } else { b"\n" };
        h().set_time(Some(case.t0.to_ns()));
        if case.tick {
            h().set_tick(1_000);
        }
        let mut l = Logger::with(LogSpecification::trace())
            .format(case.fmt.func())
            .write_mode(case.mode.to_flexi())
            .error_channel(ErrorChannel::DevNull)
            .panic_if_error_channel_is_broken(false);
        let mut rec = None;
        if case.multi {
            let (r, rr) = Recorder::new(5);
            rec = Some(rr);
            l = l.log_to_file_and_writer(FileSpec::default().directory(&dir).basename("out").suppress_timestamp(), Box::new(r));
            let a = match FileLogWriter::builder(FileSpec::default().directory(&dir).basename("add").suppress_timestamp())
                .format(case.fmt.func())
                .try_build()
            {
                Ok(a) => a,
                Err(e) => return Outcome::fail("build-failed", format!("{e:?}")),
            };
            l = l.add_writer("A", Box::new(a));
        } else {
            l = l.log_to_file(FileSpec::default().directory(&dir).basename("out").suppress_timestamp());
        }
        if case.crlf {
            l = l.use_windows_line_ending();
        }
        let (log, handle) = match l.build() {
            Ok(x) => x,
            Err(e) => return Outcome::fail("build-failed", format!("{e:?}")),
        };
        let log: Arc<dyn log::Log> = Arc::from(log);
        plug(Some(log.clone()));
        let thread = std::thread::current().name().unwrap_or("<unnamed>").to_string();
        let target = if case.multi { "{A,_Default}" } else { "flv" };
        let step: i64 = if case.tick { 1_000 } else { 0 };
        // does a record read the clock? (timestamp formats, and the recording writer)
        let needs_ts = case.fmt.has_ts() || case.multi;
        let mut segs: Vec<Seg> = Vec::new();
        let mut failure: Option<(String, String)> = None;
        // Logger::build() has read the clock already: start from the current virtual time
        let base = h().time().unwrap();
        let mut t = base;
        let seg_of = |r: &Rc, text: &str, t: i64| -> Seg {
            let ts = ns_to_local(t).format(TS_FMT).to_string();
            if case.fmt == Fmt::Json {
                Seg::Json { rc: r.clone(), text: text.to_string(), ts }
            } else {
                Seg::Exact(render(case.fmt, r, text, &ts, &thread).into_bytes())
            }
        };
        for r in &case.recs {
            let before = h().time().unwrap();
            log_rec(&*log, r, target);
            let after = h().time().unwrap();
            if r.panics {
                // nothing of it is written; the clock may have been read before the panic
                t += after - before;
                continue;
            }
            let text = if r.inner.is_empty() { r.msg.clone() } else { format!("{}<R>", r.msg) };
            // the outer record takes its timestamp first (all formats print it before the
            // message), the inner records read the clock while the message is rendered, but
            // they are written out before the outer record
            let outer_t = t;
            if needs_ts {
                t += step;
            }
            for m in &r.inner {
                let (list, reads) = inner_records(m);
                for (text, line, off) in list {
                    let ir = Rc {
                        msg: text.clone(),
                        level: 3,
                        module: Some(module_path!().to_string()),
                        file: Some(file!().to_string()),
                        line: Some(line),
                        kv: vec![],
                        inner: vec![],
                        panics: false,
                    };
                    segs.push(seg_of(&ir, &text, if needs_ts { t + off * step } else { t }));
                }
                if needs_ts {
                    t += reads * step;
                }
            }
            segs.push(seg_of(r, &text, outer_t));
            // one timestamp per record: the clock is read at most once per record
            let reads = if step > 0 { (after - before) / step } else { 0 };
            let allowed = if needs_ts { 1 + r.inner.iter().map(|m| inner_records(m).1).sum::<i64>() } else { 0 };
            if step > 0 && reads > allowed && failure.is_none() {
                failure = Some((
                    "clock-read-more-than-once-per-record".into(),
                    format!("record {:?}: the clock was read {reads} times (allowed {allowed})", r.msg),
                ));
            }
        }
        plug(None);
        handle.shutdown();
        drop(handle);
        drop(log);
        if let Some((sig, msg)) = failure {
            return Outcome::fail(sig, msg);
        }
        let got_main = std::fs::read(dir.join("out.log")).unwrap_or_default();
        if let Err((sig, msg)) = compare_stream(case, "main file", &got_main, &segs, le, &thread) {
            return Outcome::fail(sig, msg);
        }
        let mut outputs = 1;
        if case.multi {
            // the additional writer uses its own (default, LF) line ending
            let got_add = std::fs::read(dir.join("add.log")).unwrap_or_default();
            if let Err((sig, msg)) = compare_stream(case, "additional writer file", &got_add, &segs, b"\n", &thread) {
                return Outcome::fail(sig, msg);
            }
            outputs += 1;
            if let Some(rr) = &rec {
                let handed = rr.handed.lock().unwrap();
                if handed.len() != case.recs.len() {
                    return Outcome::fail("recorder-count", format!("recording writer got {} records, expected {}", handed.len(), case.recs.len()));
                }
                outputs += 1;
                let mut t = base;
                for (i, g) in handed.iter().enumerate() {
                    if g.ts_ns != t {
                        return Outcome::fail(
                            "outputs-carry-different-timestamps",
                            format!("record #{i}: the recording writer saw {} but the file outputs were rendered for {}", ns_to_local(g.ts_ns).format(TS_FMT), ns_to_local(t).format(TS_FMT)),
                        );
                    }
                    t += step;
                }
            }
        }
        out.class(&format!("fmt:{:?}", case.fmt));
        out.class(case.mode.label());
        if case.crlf {
            out.class("crlf");
        }
        if case.tick {
            out.class("ticking-clock");
        }
        let tricky = case.recs.iter().any(|r| r.msg.chars().any(|c| c == '\n' || c == '"' || c == '\\' || c.is_control() || !c.is_ascii()));
        let recursive = case.recs.iter().any(|r| !r.inner.is_empty());
        if tricky {
            out.class("tricky-message");
        }
        if case.recs.iter().any(|r| r.inner.iter().any(|m| m.starts_with('>'))) {
            out.class("recursive-two-levels");
        }
        if case.recs.iter().any(|r| r.panics) {
            out.class("panicking-display");
        }
        if recursive {
            out.class("recursive");
        }
        if case.multi {
            out.class("three-outputs");
        }
        if case.recs.iter().any(|r| !r.kv.is_empty()) {
            out.class("kv");
        }
        if (tricky && outputs >= 2) || recursive {
            out.nontrivial = true;
        }
        out
    }
}

/// walks the output: every segment must be present, followed by exactly one line ending
fn compare_stream(case: &Case, name: &str, got: &[u8], segs: &[Seg], le: &[u8], thread: &str) -> Result<(), (String, String)> {
    let got: Vec<u8> = if case.fmt.colored() { strip_ansi(got) } else { got.to_vec() };
    let mut gi = 0usize;
    for (i, seg) in segs.iter().enumerate() {
        match seg {
            Seg::Exact(b) => {
                let b: Vec<u8> = if case.fmt.colored() { strip_ansi(b) } else { b.clone() };
                let mut want = b.clone();
                want.extend_from_slice(le);
                if !got[gi..].starts_with(&want) {
                    let hi = (gi + want.len() + 20).min(got.len());
                    return Err((
                        "framing-or-rendering-mismatch".into(),
                        format!("{name}: line #{i}: expected {:?} (+ line ending {:?}), found {:?}", lossy(&b), lossy(le), lossy(&got[gi..hi])),
                    ));
                }
                gi += want.len();
            }
            Seg::Json { rc, text, ts } => {
                let rest = &got[gi..];
                let pos = find(rest, le).ok_or_else(|| ("json-line-not-terminated".to_string(), format!("{name}: line #{i}: no line ending after the JSON output: {:?}", lossy(rest))))?;
                check_json_line(&rest[..pos], rc, text, ts, thread).map_err(|e| ("json-not-faithful".to_string(), format!("{name}: line #{i}: {e}; output {:?}", lossy(&rest[..pos]))))?;
                gi += pos + le.len();
            }
        }
    }
    if gi != got.len() {
        return Err(("surplus-output".into(), format!("{name}: {} surplus bytes after the last record: {:?}", got.len() - gi, lossy(&got[gi..]))));
    }
    Ok(())
}

fn find(hay: &[u8], needle: &[u8]) -> Option<usize> {
    if needle.is_empty() || hay.len() < needle.len() {
        return None;
    }
    (0..=hay.len() - needle.len()).find(|&i| &hay[i..i + needle.len()] == needle)
}

