//! C02 A record is written iff the active specification (and text filter) enables it.
use crate::runner::{Outcome, Property, Tier};
use crate::spec::*;
use flexi_logger::filter::{LogLineFilter, LogLineWriter};
use flexi_logger::{DeferredNow, ErrorChannel, Logger};
use proptest::prelude::*;
use serde::{Deserialize, Serialize};
use std::sync::atomic::{AtomicU64, Ordering};
use std::sync::Arc;

#[derive(Clone, Debug, Serialize, Deserialize)]
pub struct Case {
    pub spec: MSpec,
    pub by_parse: bool,
    /// additional writers: (name, ceiling 0..=5)
    pub writers: Vec<(String, u8)>,
    pub line_filter: bool,
    pub msgs: Vec<usize>,
    /// a second specification that replaces the first one on the running logger; the written
    /// set is checked again ("the ACTIVE specification")
    #[serde(default)]
    pub second: Option<MSpec>,
}

pub struct P;

/// stateful user filter: forwards every second record it is handed
pub struct EverySecond {
    pub seen: Arc<std::sync::Mutex<Vec<Got>>>,
    pub n: AtomicU64,
}
impl LogLineFilter for EverySecond {
    fn write(&self, now: &mut DeferredNow, record: &log::Record, w: &dyn LogLineWriter) -> std::io::Result<()> {
        self.seen.lock().unwrap().push(Got {
            level: lvl_num(record.level()),
            target: record.target().to_string(),
            msg: record.args().to_string(),
            ts_ns: 0,
        });
        if self.n.fetch_add(1, Ordering::SeqCst) % 2 == 1 {
            w.write(now, record)
        } else {
            Ok(())
        }
    }
}

pub struct Built {
    pub log: Arc<dyn log::Log>,
    pub handle: flexi_logger::LoggerHandle,
    pub primary: Arc<Rec>,
    pub writers: Vec<(String, u8, Arc<Rec>)>,
    pub filter_seen: Option<Arc<std::sync::Mutex<Vec<Got>>>>,
}

pub fn build_logger(spec: &MSpec, by_parse: bool, writers: &[(String, u8)], line_filter: bool) -> Result<Built, String> {
    let fspec = if by_parse { spec.build_by_parse()? } else { spec.build_with_builder() };
    let (prim, prim_rec) = Recorder::new(5);
    let mut l = Logger::with(fspec)
        .log_to_writer(Box::new(prim))
        .error_channel(ErrorChannel::DevNull)
        .panic_if_error_channel_is_broken(false);
    let mut ws = Vec::new();
    for (name, ceil) in writers {
        let (w, r) = Recorder::new(*ceil);
        l = l.add_writer(name.clone(), Box::new(w));
        ws.push((name.clone(), *ceil, r));
    }
    let mut filter_seen = None;
    if line_filter {
        let seen = Arc::new(std::sync::Mutex::new(Vec::new()));
        filter_seen = Some(seen.clone());
        l = l.filter(Box::new(EverySecond { seen, n: AtomicU64::new(0) }));
    }
    let (log, handle) = l.build().map_err(|e| format!("build: {e:?}"))?;
    Ok(Built {
        log: Arc::from(log),
        handle,
        primary: prim_rec,
        writers: ws,
        filter_seen,
    })
}

/// Checks the gate and the enabled() answers of a built logger against the model spec.
/// Returns Err((sig, msg)).
pub fn check_gate_and_enabled(b: &Built, spec: &MSpec, targets: &[String]) -> Result<(), (String, String)> {
    let gate = lf_num(log::max_level());
    for t in targets {
        for l in 1..=5u8 {
            let want = spec.enabled(l, t);
            if want && l > gate {
                return Err((
                    "max-level-hides-enabled-record".into(),
                    format!("log::max_level()={gate} but the specification enables level {l} for target {t:?}"),
                ));
            }
            let md = log::Metadata::builder().level(lvl(l)).target(t).build();
            let got = b.log.enabled(&md);
            if got != want {
                return Err((
                    if want { "enabled-false-for-accepted-record".into() } else { "enabled-true-for-rejected-record".into() },
                    format!("Log::enabled(level {l}, target {t:?}) = {got}, reference matcher says {want}; spec {}", spec.render()),
                ));
            }
        }
    }
    for (name, ceil, _) in &b.writers {
        if *ceil > gate {
            return Err((
                "max-level-hides-writer-record".into(),
                format!("log::max_level()={gate} but additional writer {name} accepts up to level {ceil}"),
            ));
        }
    }
    Ok(())
}

impl Property for P {
    type Case = Case;
    const ID: &'static str = "C02";
    const LEVEL: &'static str = "exploration";
    fn rule() -> String {
        "proptest-generated specifications over a segment pool that forces prefix pairs and names equal to level words (1-3 segments joined by ::, each name once, all levels incl. off, default present/absent at any position, optional regex), built with LogSpecBuilder or by parse(); per case the full grid targets(exact, name::x, namex, strict prefix, unrelated, empty) x 5 levels x 2-3 messages is logged through the real log macros into a switchboard global logger; oracle = reference matcher (longest prefix, else default, else off) and regex; additionally log::max_level() must admit everything the matcher or an additional writer accepts, and Log::enabled must equal the matcher on the grid and must not answer false for {writer} targets that are written. Non-trivial = the spec has two names where one is a prefix of the other and the grid contains accepted and rejected records; distinct = distinct serialized case".into()
    }
    fn assumptions() -> Vec<String> {
        vec![
            "specifications name each module at most once (as the property states)".into(),
            "custom additional writers are well-behaved: they emit only records at or below their own declared max_log_level".into(),
        ]
    }
    fn cases(tier: Tier) -> u64 {
        match tier {
            Tier::Quick => 30_000,
            Tier::Thorough => 1_000_000,
        }
    }
    fn chunk(_t: Tier) -> u64 {
        500
    }
    fn worker_init() {
        install_switchboard();
    }
    fn strategy(_tier: Tier) -> BoxedStrategy<Case> {
        (
            mspec_strat(),
            any::<bool>(),
            prop::collection::btree_map(prop_oneof![Just("W1".to_string()), Just("W2".to_string()), Just("Alert".to_string())], 0u8..6, 0..3),
            prop::bool::weighted(0.2),
            prop::collection::vec(0usize..MESSAGES.len(), 2..4),
            prop::option::weighted(0.4, mspec_strat()),
        )
            .prop_map(|(spec, by_parse, writers, line_filter, msgs, second)| Case {
                spec,
                by_parse,
                writers: writers.into_iter().collect(),
                line_filter,
                msgs,
                second: if line_filter { None } else { second },
            })
            .boxed()
    }

    fn run(case: &Case) -> Outcome {
        let mut out = Outcome::ok();
        let b = match build_logger(&case.spec, case.by_parse, &case.writers, case.line_filter) {
            Ok(b) => b,
            Err(e) => return Outcome::fail("build-failed", e),
        };
        plug(Some(b.log.clone()));
        let names = case.spec.names();
        let targets = grid_targets(&names);
        out.class(if case.by_parse { "built-by-parse" } else { "built-by-builder" });
        if case.spec.regex.is_some() {
            out.class("regex");
        }
        if case.line_filter {
            out.class("line-filter");
        }
        if let Err((sig, msg)) = check_gate_and_enabled(&b, &case.spec, &targets) {
            plug(None);
            b.handle.shutdown();
            return Outcome::fail(sig, msg);
        }
        // records through the macro path
        let mut expected = Vec::new();
        let mut accepted = 0u64;
        let mut rejected = 0u64;
        for t in &targets {
            for l in 1..=5u8 {
                for mi in &case.msgs {
                    let m = MESSAGES[*mi];
                    macro_log(lvl(l), t, m);
                    if case.spec.enabled(l, t) && case.spec.text_ok(m) {
                        accepted += 1;
                        expected.push(Got { level: l, target: t.clone(), msg: m.to_string(), ts_ns: 0 });
                    } else {
                        rejected += 1;
                    }
                }
            }
        }
        out.weight = accepted + rejected;
        let strip = |v: &Vec<Got>| -> Vec<Got> { v.iter().map(|g| Got { ts_ns: 0, ..g.clone() }).collect() };
        let handed = strip(&b.primary.handed.lock().unwrap());
        let verdict = if let Some(seen) = &b.filter_seen {
            let seen = strip(&seen.lock().unwrap());
            if seen != expected {
                Some(("filter-input-mismatch", describe_diff(&expected, &seen)))
            } else {
                let fwd: Vec<Got> = expected.iter().enumerate().filter(|(i, _)| i % 2 == 1).map(|(_, g)| g.clone()).collect();
                if handed != fwd {
                    Some(("filter-output-mismatch", describe_diff(&fwd, &handed)))
                } else {
                    None
                }
            }
        } else if handed != expected {
            Some(("written-set-mismatch", describe_diff(&expected, &handed)))
        } else {
            None
        };
        if let Some((sig, msg)) = verdict {
            out.set_fail(sig, format!("{msg}; spec {}", case.spec.render()));
        }
        // additional writers: {W} targets; enabled() must not say false for what is written
        if out.fail.is_none() {
            'w: for (name, ceil, rec) in &b.writers {
                let t = format!("{{{name}}}");
                for l in 1..=5u8 {
                    let before = rec.emitted.lock().unwrap().len();
                    macro_log(lvl(l), &t, "to-writer");
                    let written = rec.emitted.lock().unwrap().len() > before;
                    let md = log::Metadata::builder().level(lvl(l)).target(&t).build();
                    let en = b.log.enabled(&md);
                    if written != (l <= *ceil) {
                        out.set_fail("writer-delivery-mismatch", format!("target {t} level {l} ceiling {ceil}: emitted={written}"));
                        break 'w;
                    }
                    if written && !en {
                        out.set_fail(
                            "enabled-false-but-written-to-writer",
                            format!("Log::enabled(level {l}, target {t:?}) is false, but writer {name} (ceiling {ceil}) emitted the record"),
                        );
                        break 'w;
                    }
                }
            }
            if !b.writers.is_empty() {
                out.class("additional-writers");
            }
        }
        // the specification is replaced on the running logger: the ACTIVE one decides
        if out.fail.is_none() {
            if let Some(second) = &case.second {
                out.class("spec-replaced-at-run-time");
                b.handle.set_new_spec(second.build_with_builder());
                let t2 = grid_targets(&second.names());
                if let Err((sig, msg)) = check_gate_and_enabled(&b, second, &t2) {
                    out.set_fail(format!("after-replacement:{sig}"), msg);
                } else {
                    let before = b.primary.handed.lock().unwrap().len();
                    let mut exp2 = Vec::new();
                    for t in &t2 {
                        for l in 1..=5u8 {
                            for mi in &case.msgs {
                                let m = MESSAGES[*mi];
                                macro_log(lvl(l), t, m);
                                if second.enabled(l, t) && second.text_ok(m) {
                                    exp2.push(Got { level: l, target: t.clone(), msg: m.to_string(), ts_ns: 0 });
                                }
                            }
                        }
                    }
                    let got2 = strip(&b.primary.handed.lock().unwrap()[before..].to_vec());
                    if got2 != exp2 {
                        out.set_fail("after-replacement:written-set-mismatch", format!("{}; first spec {}, active spec {}", describe_diff(&exp2, &got2), case.spec.render(), second.render()));
                    }
                }
                // back to the first one for the remaining clauses
                b.handle.set_new_spec(case.spec.build_with_builder());
            }
        }
        // brace targets that contain _Default: log() decides by the record's module path, and
        // enabled() must not answer false for what is then written to the default channel
        // (this clause fails on the pinned tree: listed finding KF-C02-1; to keep the search going
        // it is evaluated for every 20th case only, and always in replays)
        let sampled = crate::util::fnv(serde_json::to_string(case).unwrap().as_bytes()) % 20 == 0 || std::env::var("FLV_REPLAY").is_ok();
        if out.fail.is_none() && sampled {
            let wname = b.writers.first().map(|(n, _, _)| n.clone());
            'd: for module in names.iter().take(3) {
                for l in 1..=5u8 {
                    let t = match &wname {
                        Some(w) => format!("{{{w},_Default}}"),
                        None => "{_Default}".to_string(),
                    };
                    let before = b.primary.handed.lock().unwrap().len();
                    let seen_before = b.filter_seen.as_ref().map_or(0, |s| s.lock().unwrap().len());
                    b.log.log(&log::Record::builder().args(format_args!("a")).level(lvl(l)).target(&t).module_path(Some(module.as_str())).build());
                    let reached_default = b.primary.handed.lock().unwrap().len() > before
                        || b.filter_seen.as_ref().is_some_and(|s| s.lock().unwrap().len() > seen_before);
                    let want = case.spec.enabled(l, module) && case.spec.text_ok("a");
                    if reached_default != want {
                        out.set_fail("brace-default-delivery-mismatch", format!("target {t}, module path {module:?}, level {l}: reached the default channel = {reached_default}, reference matcher on the module path = {want}"));
                        break 'd;
                    }
                    let md = log::Metadata::builder().level(lvl(l)).target(&t).build();
                    if reached_default && !b.log.enabled(&md) {
                        out.set_fail(
                            "enabled-false-for-brace-default-record",
                            format!("Log::enabled(level {l}, target {t:?}) is false, but the record (module path {module:?}) is written to the default channel; spec {}", case.spec.render()),
                        );
                        break 'd;
                    }
                    out.class("brace-target-with-_Default");
                }
            }
        }
        plug(None);
        b.handle.shutdown();
        let prefix_pair = names.iter().any(|a| names.iter().any(|c| a != c && c.starts_with(a.as_str())));
        if prefix_pair {
            out.class("prefix-pair");
        }
        if names.iter().any(|n| LEVEL_WORDS.contains(&n.to_lowercase().as_str())) {
            out.class("name-is-level-word");
        }
        if prefix_pair && accepted > 0 && rejected > 0 {
            out.nontrivial = true;
        }
        out
    }
}

pub fn describe_diff(exp: &[Got], got: &[Got]) -> String {
    let n = exp.len().min(got.len());
    for i in 0..n {
        if exp[i] != got[i] {
            return format!(
                "record #{i}: expected (level {}, target {:?}, msg {:?}) but got (level {}, target {:?}, msg {:?}); expected {} records, got {}",
                exp[i].level, exp[i].target, exp[i].msg, got[i].level, got[i].target, got[i].msg, exp.len(), got.len()
            );
        }
    }
    if exp.len() > got.len() {
        let e = &exp[n];
        format!("missing record (level {}, target {:?}, msg {:?}); expected {} records, got {}", e.level, e.target, e.msg, exp.len(), got.len())
    } else if got.len() > exp.len() {
        let g = &got[n];
        format!("unexpected record (level {}, target {:?}, msg {:?}); expected {} records, got {}", g.level, g.target, g.msg, exp.len(), got.len())
    } else {
        "equal".into()
    }
}
