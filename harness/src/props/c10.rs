//! C10 Logging operations never panic or hang, whatever the input or directory content.
use crate::fscn::*;
use crate::hooks::h;
use crate::runner::{Outcome, Property, Tier};
use crate::spec::{lvl, Recorder};
use crate::util::Scratch;
use crate::vtime::{vinst_strat, VInst, MS};

use flexi_logger::{ErrorChannel, LogSpecification, Logger, LogfileSelector};
use proptest::prelude::*;
use serde::{Deserialize, Serialize};

#[derive(Clone, Debug, Serialize, Deserialize)]
pub struct HRec {
    pub target: String,
    pub msg: String,
    pub level: u8,
    pub module: Option<String>,
    pub file: Option<String>,
    pub line: Option<u32>,
    pub kv: bool,
}

#[derive(Clone, Debug, Serialize, Deserialize)]
pub enum PreKind {
    File(usize),
    Dir,
    DanglingSymlink,
}

#[derive(Clone, Debug, Serialize, Deserialize)]
pub struct Pre {
    /// raw bytes of the file name (may be invalid UTF-8)
    pub name: Vec<u8>,
    pub kind: PreKind,
}

#[derive(Clone, Debug, Serialize, Deserialize)]
pub enum FOp {
    Write(usize),
    Rotate,
    Flush,
    /// selector bits: 1 plain, 2 r_current, 4 compressed, 8 custom current
    List(u8),
    Reopen,
    Advance(i64),
    /// log directory removed externally
    RemoveDir,
    Restart { append: bool },
}

#[derive(Clone, Debug, Serialize, Deserialize)]
pub enum Case {
    Targets {
        with_writers: bool,
        to_stdout_devnull: bool,
        recs: Vec<HRec>,
    },
    SpecOps {
        strings: Vec<String>,
    },
    Files {
        tz: String,
        cfg: FileCfg,
        t0: VInst,
        pre: Vec<Pre>,
        ops: Vec<FOp>,
    },
    Buffer {
        max: usize,
        msgs: Vec<String>,
    },
    /// (harness built with its feature `watcher`) this many loggers with a specification file are
    /// built and kept alive at the same time: each one starts a file watcher, and the watchers of
    /// one user are a limited resource (128 inotify instances) - running out of them is a problem
    /// to be reported as an error result, not a panic
    ManyWatchers {
        n: usize,
    },
}

pub struct P;

fn hostile_target() -> BoxedStrategy<String> {
    prop_oneof![
        Just("{".to_string()),
        Just("}".to_string()),
        Just("{}".to_string()),
        Just("{é".to_string()),
        Just("{é}".to_string()),
        Just("{W1".to_string()),
        Just("{W1,".to_string()),
        Just("{,}".to_string()),
        Just("{_Default".to_string()),
        Just("{_Default}".to_string()),
        Just("{W1,_Default}".to_string()),
        Just("{{W1}}".to_string()),
        Just("{W1}x".to_string()),
        Just("{日".to_string()),
        Just("{W1,日本}".to_string()),
        Just(String::new()),
        Just("a::b".to_string()),
        "\\{[A-Za-z_,é{} ]{0,8}",
        "\\PC{0,12}",
        any::<String>(),
        // long names of multi-byte characters at every byte offset: whatever cuts or indexes the
        // target (or a message that echoes it) at a fixed byte position hits a character
        (0usize..4, prop_oneof![Just("é"), Just("日"), Just("🎉")], 30usize..400, any::<bool>(), any::<bool>()).prop_map(|(pad, ch, n, brace, close)| {
            let mut t = String::new();
            if brace {
                t.push('{');
            }
            t.push_str(&"a".repeat(pad));
            t.push_str(&ch.repeat(n));
            if brace && close {
                t.push('}');
            }
            t
        }),
    ]
    .boxed()
}

fn hostile_msg() -> BoxedStrategy<String> {
    prop_oneof![
        Just(String::new()),
        Just("multi\nline\r\n".to_string()),
        Just("ünï 日本 🎉".to_string()),
        Just("x".repeat(100_000)),
        "\\PC{0,40}",
        any::<String>(),
    ]
    .boxed()
}

fn hrec() -> BoxedStrategy<HRec> {
    (
        hostile_target(),
        hostile_msg(),
        1u8..6,
        prop::option::of(prop_oneof![Just(String::new()), Just("m::n".to_string()), "\\PC{0,8}"]),
        prop::option::of(prop_oneof![Just(String::new()), Just("src/x.rs".to_string()), "\\PC{0,8}"]),
        prop::option::of(any::<u32>()),
        any::<bool>(),
    )
        .prop_map(|(target, msg, level, module, file, line, kv)| HRec { target, msg, level, module, file, line, kv })
        .boxed()
}

fn hostile_name_part() -> BoxedStrategy<String> {
    prop_oneof![
        4 => name_part(),
        1 => Just("a.b".to_string()),
        1 => Just("a.b.c".to_string()),
        1 => Just(".hidden".to_string()),
        1 => Just("with space".to_string()),
        1 => Just("ü".to_string()),
        1 => Just("x_r00001".to_string()),
        1 => Just("r".to_string()),
        1 => Just("_".to_string()),
    ]
    .boxed()
}

fn hostile_fmt() -> BoxedStrategy<String> {
    prop_oneof![
        3 => custom_fmt(),
        1 => Just("%Y%m%d".to_string()),
        1 => Just("%F".to_string()),
        1 => Just("%Y-%m-%dT%H%M%S".to_string()),
        1 => Just("r%Y-%m-%d_%H-%M-%S-and-a-very-long-literal-tail-0123456789".to_string()),
        1 => Just("%y%m%d".to_string()),
        1 => Just("d%j-%Y".to_string()),
    ]
    .boxed()
}

fn hostile_cfg() -> BoxedStrategy<FileCfg> {
    let nam = prop_oneof![
        2 => Just(Nam::Numbers),
        2 => Just(Nam::NumbersDirect),
        2 => Just(Nam::Timestamps),
        2 => Just(Nam::TimestampsDirect),
        2 => (prop_oneof![Just("rCURRENT".to_string()), Just("c".to_string()), Just("é".to_string())], hostile_fmt()).prop_map(|(c, fmt)| Nam::Custom { current: Some(c), fmt }),
        1 => hostile_fmt().prop_map(|fmt| Nam::Custom { current: Some(String::new()), fmt }),
        2 => hostile_fmt().prop_map(|fmt| Nam::Custom { current: None, fmt }),
    ];
    let cln = prop_oneof![
        3 => Just(Cln::Never),
        2 => (0usize..4).prop_map(Cln::Keep),
        1 => (0usize..4).prop_map(Cln::KeepGz),
        1 => (0usize..3, 0usize..3).prop_map(|(a, b)| Cln::KeepBoth(a, b)),
    ];
    (
        prop::option::weighted(0.85, (crit_strat(), nam, cln)),
        prop_oneof![3 => sync_mode_strat(), 1 => async_mode_strat(), 1 => hostile_async_mode()],
        prop_oneof![4 => suffix_strat(), 1 => Just(Some("log.1".to_string())), 1 => Just(Some("ü".to_string())), 1 => Just(Some(String::new()))],
        prop::option::weighted(0.8, hostile_name_part()),
        prop::option::weighted(0.3, hostile_name_part()),
        prop::bool::weighted(0.15),
        prop::bool::weighted(0.2),
        any::<bool>(),
        any::<bool>(),
        crate::mr::build_variant_strat(),
    )
        .prop_map(|(rot, mode, suffix, basename, discr, start_ts, utc, via_logger, symlink, build_variant)| {
            let rot = rot.map(|(crit, nam, cln)| Rot { crit: fix_crit(crit, &nam), nam, cln });
            let empty_infix = match &rot {
                None => true,
                Some(r) => r.nam.current_token().as_deref() == Some(""),
            };
            let suffix_empty = suffix.as_deref().is_none_or(str::is_empty);
            // an entirely empty file name is no configuration of a log file
            let basename = if basename.is_none() && discr.is_none() && !start_ts && empty_infix && suffix_empty {
                Some("app".to_string())
            } else {
                basename
            };
            FileCfg {
                basename,
                discr,
                suffix,
                start_ts,
                rot,
                mode,
                crlf: false,
                utc,
                symlink,
                bg_cleanup: false,
                via_logger: via_logger && !utc,
                build_variant,
            }
        })
        .boxed()
}

/// async modes with degenerate capacities (an empty pool, empty message buffers)
fn hostile_async_mode() -> BoxedStrategy<Mode> {
    (prop_oneof![Just(0usize), Just(1usize)], prop_oneof![Just(0usize), Just(1usize), Just(200usize)], prop_oneof![Just(0u64), Just(1u64)])
        .prop_map(|(pool, msg, flush_ms)| Mode::Async { pool, msg, flush_ms })
        .boxed()
}

/// near misses of the family pattern of `cfg`, as raw file names
fn pre_entries(cfg: &FileCfg) -> BoxedStrategy<Vec<Pre>> {
    let prefix = cfg.static_prefix();
    let sfx = cfg.suffix.clone().map(|s| format!(".{s}")).unwrap_or_default();
    let sep = if prefix.is_empty() { "" } else { "_" };
    let ts = "r2024-03-10_11-30-30";
    let mut names: Vec<Vec<u8>> = Vec::new();
    let mut add = |s: String| names.push(s.into_bytes());
    for infix in ["r00001", "r00000", "rCURRENT", ts, "r99999", "r100000", "cur", "c"] {
        add(format!("{prefix}{sep}{infix}{sfx}"));
        add(format!("{prefix}é{sep}{infix}{sfx}"));
        add(format!("{prefix}x{sep}{infix}{sfx}"));
        add(format!("{prefix}{sep}{infix}{sfx}.gz"));
        add(format!("{prefix}{sep}{infix}{sfx}.gz.gz"));
        add(format!("{prefix}{sep}{infix}.restart-{sfx}"));
        add(format!("{prefix}{sep}{infix}.restart-ab{sfx}"));
        add(format!("{prefix}{sep}{infix}.restart-12{sfx}"));
        add(format!("{prefix}{sep}{infix}.restart-0000{sfx}"));
        add(format!("{prefix}{sep}{infix}.restart-9999{sfx}"));
        add(format!("{prefix}{sep}{infix}.restart-123456{sfx}"));
        // numbers at and beyond the limits of the integer types they are parsed into
        add(format!("{prefix}{sep}{infix}.restart-18446744073709551615{sfx}"));
        add(format!("{prefix}{sep}{infix}.restart-18446744073709551616{sfx}"));
        add(format!("{prefix}{sep}{infix}.restart-4294967295{sfx}"));
        add(format!("{prefix}{sep}{infix}é{sfx}"));
        add(format!("{prefix}{sep}{infix}"));
        add(format!("{prefix}é{infix}{sfx}"));
        add(format!("{prefix}日{sfx}"));
    }
    add(format!("{prefix}{sfx}"));
    add(format!("{prefix}{sep}{sfx}"));
    add(format!("{prefix}{sep}r{sfx}"));
    add(format!("{prefix}{sep}r1{sfx}"));
    add(format!("{prefix}{sep}r4294967295{sfx}"));
    add(format!("{prefix}{sep}r4294967294{sfx}"));
    add(format!("{prefix}{sep}r4294967296{sfx}"));
    add(format!("{prefix}{sep}r18446744073709551615{sfx}"));
    add(format!("{prefix}{sep}r99999999999999999999999{sfx}"));
    add(format!("{prefix}{sep}rX{sfx}"));
    add(format!("{prefix}{sep}é"));
    add(format!("{prefix}_"));
    add(format!("{prefix}{sep}2024-03-10{sfx}"));
    add(format!("{prefix}{sep}20240310{sfx}"));
    add(format!("{prefix}{sep}r2024-03-10{sfx}"));
    add(format!("{prefix}{sep}r2024-03-1{sfx}"));
    add(format!("{prefix}{sep}{}{sfx}", "r".repeat(200)));
    let mut bad = prefix.clone().into_bytes();
    bad.extend_from_slice(b"\xff\xfe_r00001");
    bad.extend_from_slice(sfx.as_bytes());
    names.push(bad);
    let mut bad2 = format!("{prefix}{sep}r0000").into_bytes();
    bad2.push(0xff);
    bad2.extend_from_slice(sfx.as_bytes());
    names.push(bad2);
    names.retain(|n| !n.is_empty() && n.len() <= 255 && n != b"." && n != b".." && !n.contains(&b'/') && !n.contains(&0));
    names.sort();
    names.dedup();
    let n = names.len();
    proptest::sample::subsequence(names, 0..=n.min(8))
        .prop_flat_map(|picked| {
            let k = picked.len();
            (Just(picked), prop::collection::vec(prop_oneof![6 => (0usize..40).prop_map(PreKind::File), 1 => Just(PreKind::Dir), 1 => Just(PreKind::DanglingSymlink)], k..=k))
        })
        .prop_map(|(names, kinds)| names.into_iter().zip(kinds).map(|(name, kind)| Pre { name, kind }).collect())
        .boxed()
}

fn fop() -> BoxedStrategy<FOp> {
    prop_oneof![
        10 => prop_oneof![0usize..30, Just(0usize), Just(500usize)].prop_map(FOp::Write),
        3 => Just(FOp::Rotate),
        1 => Just(FOp::Flush),
        3 => (0u8..16).prop_map(FOp::List),
        1 => Just(FOp::Reopen),
        3 => crate::vtime::advance_ms_strat().prop_map(FOp::Advance),
        1 => Just(FOp::RemoveDir),
        3 => any::<bool>().prop_map(|append| FOp::Restart { append }),
    ]
    .boxed()
}

fn selector(bits: u8, custom: Option<String>) -> LogfileSelector {
    let mut s = if bits & 1 != 0 { LogfileSelector::default() } else { LogfileSelector::none() };
    if bits & 2 != 0 {
        s = s.with_r_current();
    }
    if bits & 4 != 0 {
        s = s.with_compressed_files();
    }
    if bits & 8 != 0 {
        s = s.with_custom_current(&custom.unwrap_or_else(|| "cur".to_string()));
    }
    s
}

impl Property for P {
    type Case = Case;
    const ID: &'static str = "C10";
    const LEVEL: &'static str = "exploration";
    fn rule() -> String {
        "robustness fuzzing with a semantic after-check, four generated domains: (1) records with hostile targets (unbalanced/empty braces, multi-byte characters next to braces, _Default variants, arbitrary Unicode), messages (empty, multi-line, non-ASCII, 100 kB), absent/odd module, file, line, key-values, against loggers with and without additional writers: Log::log, Log::enabled, flush; (2) arbitrary and grammar-mutated strings into parse_new_spec / parse_and_push_temp_spec / LogSpecification::parse / from_toml; (3) file loggers with hostile name parts (empty basename, no/empty/multi-byte suffix, dots, blanks, names that look like infixes), all namings, custom timestamp formats of many lengths, append on/off, in directories pre-populated with up to 8 near-miss entries derived from the logger's own name pattern (other prefix, multi-byte right after the fixed part, .restart- followed by nothing/letters/2/4/6 digits, .gz.gz, missing infix, invalid UTF-8, 200-character infix, sub-directories and dangling symlinks with such names) under histories of write/rotate/flush/existing_log_files(all selectors)/reopen/clock advance/restart/external removal of the directory; (4) BufferWriter with capacities 0..200. Oracle: no panic in any thread (panic hook + catch_unwind), no watchdog hit, and after every step a probe record is still accepted without panic (a poisoned lock shows here). Non-trivial = the case contains a hostile element (brace/multi-byte target, near-miss directory entry with a listing/rotation/restart executed while it was present, hostile name part, capacity below a line); distinct = distinct serialized case".into()
    }
    fn assumptions() -> Vec<String> {
        vec![
            "documented panics are not provoked: FileSpec::try_from on a path without file name, DeferredNow::force_utc after first use, DeferredNow::format with an invalid format string, a broken error channel with panic_if_error_channel_is_broken(true)".into(),
            "custom timestamp formats are valid chrono formats that contain a full date (documented requirement)".into(),
        ]
    }
    fn case_timeout() -> std::time::Duration {
        // cases take milliseconds; 10 s without progress is a hang
        std::time::Duration::from_secs(10)
    }
    fn cases(tier: Tier) -> u64 {
        match tier {
            Tier::Quick => 40_000,
            Tier::Thorough => 1_500_000,
        }
    }
    fn fixed_cases(_tier: Tier) -> Vec<Case> {
        if cfg!(feature = "watcher") {
            vec![Case::ManyWatchers { n: 150 }]
        } else {
            Vec::new()
        }
    }
    fn strategy(_tier: Tier) -> BoxedStrategy<Case> {
        prop_oneof![
            3 => (any::<bool>(), any::<bool>(), prop::collection::vec(hrec(), 1..12)).prop_map(|(with_writers, to_stdout_devnull, recs)| Case::Targets { with_writers, to_stdout_devnull, recs }),
            1 => prop::collection::vec(prop_oneof![any::<String>(), crate::spec::malformed_string(), "\\PC{0,16}", Just("a=".to_string()), Just("=".to_string()), Just("/".to_string())], 1..8).prop_map(|strings| Case::SpecOps { strings }),
            8 => hostile_cfg().prop_flat_map(|cfg| {
                let pre = pre_entries(&cfg);
                (Just(cfg), vinst_strat(), pre, prop::collection::vec(fop(), 1..30))
            }).prop_map(|(cfg, t0, pre, ops)| Case::Files { tz: crate::vtime::tz_name(), cfg, t0, pre, ops }),
            1 => (0usize..200, prop::collection::vec(hostile_msg(), 1..10)).prop_map(|(max, msgs)| Case::Buffer { max, msgs }),
        ]
        .boxed()
    }

    fn run(case: &Case) -> Outcome {
        let mut out = Outcome::ok();
        match case {
            Case::Targets { with_writers, to_stdout_devnull: _, recs } => {
                out.class("targets");
                let (prim, _pr) = Recorder::new(5);
                let mut l = Logger::with(LogSpecification::trace())
                    .log_to_writer(Box::new(prim))
                    .error_channel(ErrorChannel::DevNull)
                    .panic_if_error_channel_is_broken(false);
                if *with_writers {
                    let (w1, _) = Recorder::new(3);
                    let (w2, _) = Recorder::new(5);
                    l = l.add_writer("W1", Box::new(w1)).add_writer("日本", Box::new(w2));
                    out.class("with-additional-writers");
                }
                let (log, handle) = match l.build() {
                    Ok(x) => x,
                    Err(e) => return Outcome::fail("build-failed", format!("{e:?}")),
                };
                for r in recs {
                    let kvs: Vec<(&str, log::kv::Value)> = if r.kv { vec![("k", log::kv::Value::from(1)), ("ü", log::kv::Value::from("v\n"))] } else { vec![] };
                    let kvs_ref: &[(&str, log::kv::Value)] = &kvs;
                    let md = log::Metadata::builder().level(lvl(r.level)).target(&r.target).build();
                    let _ = log.enabled(&md);
                    log.log(
                        &log::Record::builder()
                            .args(format_args!("{}", r.msg))
                            .level(lvl(r.level))
                            .target(&r.target)
                            .module_path(r.module.as_deref())
                            .file(r.file.as_deref())
                            .line(r.line)
                            .key_values(&kvs_ref)
                            .build(),
                    );
                    // probe
                    log.log(&log::Record::builder().args(format_args!("probe")).level(log::Level::Error).target("probe").build());
                    if r.target.starts_with('{') || !r.target.is_ascii() {
                        out.nontrivial = true;
                    }
                }
                log.flush();
                handle.shutdown();
            }
            Case::SpecOps { strings } => {
                out.class("spec-strings");
                let (prim, _pr) = Recorder::new(5);
                let (log, mut handle) = match Logger::with(LogSpecification::info())
                    .log_to_writer(Box::new(prim))
                    .error_channel(ErrorChannel::DevNull)
                    .panic_if_error_channel_is_broken(false)
                    .build()
                {
                    Ok(x) => x,
                    Err(e) => return Outcome::fail("build-failed", format!("{e:?}")),
                };
                for (i, s) in strings.iter().enumerate() {
                    let _ = LogSpecification::parse(s);
                    let _ = LogSpecification::from_toml(s);
                    if i % 2 == 0 {
                        let _ = handle.parse_new_spec(s);
                    } else {
                        let _ = handle.parse_and_push_temp_spec(s);
                    }
                    log.log(&log::Record::builder().args(format_args!("probe")).level(log::Level::Error).target("probe").build());
                    if i % 3 == 2 {
                        handle.pop_temp_spec();
                    }
                }
                handle.shutdown();
                out.nontrivial = true;
            }
            Case::Buffer { max, msgs } => {
                out.class("buffer-writer");
                let (log, handle) = match Logger::with(LogSpecification::trace())
                    .log_to_buffer(*max, None)
                    .error_channel(ErrorChannel::DevNull)
                    .panic_if_error_channel_is_broken(false)
                    .build()
                {
                    Ok(x) => x,
                    Err(e) => return Outcome::fail("build-failed", format!("{e:?}")),
                };
                let mut snap = flexi_logger::Snapshot::new();
                for m in msgs {
                    log.log(&log::Record::builder().args(format_args!("{m}")).level(log::Level::Info).target("t").build());
                    let _ = handle.update_snapshot(&mut snap);
                    if m.len() + 20 > *max {
                        out.nontrivial = true;
                    }
                }
                handle.shutdown();
            }
            Case::ManyWatchers { n } => {
                out.class("many-specfile-watchers");
                let sc = Scratch::new("c10w");
                let mut alive = Vec::new();
                let mut errors = 0;
                for i in 0..*n {
                    match Logger::with(LogSpecification::info())
                        .do_not_log()
                        .error_channel(ErrorChannel::DevNull)
                        .panic_if_error_channel_is_broken(false)
                        .build_with_specfile(sc.sub(&format!("s{i}/logspec.toml")))
                    {
                        Ok(x) => alive.push(x),
                        Err(_) => errors += 1,
                    }
                }
                if errors > 0 {
                    out.class("watcher-creation-refused-with-an-error-result");
                    out.nontrivial = true;
                }
                drop(alive);
                // let the event loops of the watchers close their inotify instances
                std::thread::sleep(std::time::Duration::from_millis(300));
            }
            Case::Files { cfg, t0, pre, ops, .. } => {
                out.class("files");
                run_files(cfg, *t0, pre, ops, &mut out);
            }
        }
        out
    }
}

fn run_files(cfg: &FileCfg, t0: VInst, pre: &[Pre], ops: &[FOp], out: &mut Outcome) {
    use std::os::unix::ffi::OsStrExt;
    let sc = Scratch::new("c10");
    let dir = sc.sub("logs");
    let link = sc.sub("link");
    let _ = std::fs::create_dir_all(&dir);
    h().set_time(Some(t0.to_ns()));
    for p in pre {
        let path = dir.join(std::ffi::OsStr::from_bytes(&p.name));
        match p.kind {
            PreKind::File(n) => {
                let _ = std::fs::write(&path, vec![b'x'; n]);
                h().register_birth(&path, t0.to_ns() - 5_000 * MS);
            }
            PreKind::Dir => {
                let _ = std::fs::create_dir(&path);
            }
            PreKind::DanglingSymlink => {
                let _ = std::os::unix::fs::symlink("/nonexistent/target", &path);
            }
        }
    }
    out.class(cfg.nam().map_or("nam:none", |n| n.label()));
    let custom_current = cfg.nam().and_then(Nam::current_token);
    let mut sess = match Sess::start(cfg, &dir, false, None, cfg.symlink.then_some(link.as_path())) {
        Ok(s) => Some(s),
        Err(_) => {
            // an error result at configuration time is the documented way to refuse
            out.class("start-refused");
            None
        }
    };
    let mut relevant_while_hostile = false;
    let mut dir_present = true;
    for op in ops {
        let Some(s) = &sess else {
            if let FOp::Restart { append } = op {
                if !dir_present {
                    dir_present = true;
                }
                sess = Sess::start(cfg, &dir, *append, None, cfg.symlink.then_some(link.as_path())).ok();
            }
            continue;
        };
        match op {
            FOp::Write(n) => s.write(&crate::util::payload(0, 0, *n)),
            FOp::Rotate => {
                let _ = s.rotate();
                relevant_while_hostile |= !pre.is_empty();
            }
            FOp::Flush => s.flush(),
            FOp::List(bits) => {
                let _ = s.existing(&selector(*bits, custom_current.clone()));
                relevant_while_hostile |= !pre.is_empty();
            }
            FOp::Reopen => {
                let _ = s.reopen();
            }
            FOp::Advance(ms) => h().advance(*ms * MS),
            FOp::RemoveDir => {
                let _ = std::fs::remove_dir_all(&dir);
                dir_present = false;
                out.class("directory-removed-externally");
            }
            FOp::Restart { append } => {
                if let Some(s) = sess.take() {
                    s.shutdown();
                }
                relevant_while_hostile |= !pre.is_empty();
                sess = Sess::start(cfg, &dir, *append, None, cfg.symlink.then_some(link.as_path())).ok();
                dir_present = true;
                continue;
            }
        }
        // probe: logging continues
        s.write("probe");
    }
    if let Some(s) = sess.take() {
        s.shutdown();
    }
    let hostile_names = cfg.basename.as_deref().is_some_and(|b| !b.is_ascii() || b.contains('.') || b.contains(' ') || b.contains("_r"))
        || cfg.suffix.as_deref().is_some_and(|s| s.is_empty() || !s.is_ascii() || s.contains('.'))
        || cfg.basename.is_none();
    if hostile_names {
        out.class("hostile-name-parts");
    }
    if !pre.is_empty() {
        out.class("pre-populated-directory");
    }
    if relevant_while_hostile || hostile_names {
        out.nontrivial = true;
    }
}
