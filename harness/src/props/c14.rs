//! C14 Files outside the logger's naming pattern are never touched and never disturb it.
use crate::fscn::*;
use crate::hist::Op;
use crate::hooks::{h, ns_to_local};
use crate::mr::*;
use crate::observe::{classify, snapshot, EKind, Entry};
use crate::runner::{Outcome, Property, Tier};
use crate::util::{lossy, Scratch};
use crate::vtime::vinst_strat;
use flexi_logger::LogfileSelector;
use proptest::prelude::*;
use serde::{Deserialize, Serialize};
use std::collections::BTreeMap;

#[derive(Clone, Debug, Serialize, Deserialize)]
pub enum FKind {
    File(Vec<u8>),
    Dir,
    DanglingSymlink,
}

#[derive(Clone, Debug, Serialize, Deserialize)]
pub struct Foreign {
    pub name: String,
    pub kind: FKind,
}

#[derive(Clone, Debug, Serialize, Deserialize)]
pub struct Case {
    pub mr: MrCase,
    pub foreign: Vec<Foreign>,
    /// selector bits queried after every run: 1 plain, 2 r_current, 4 compressed, 8 custom current
    pub selector: u8,
    /// before every later run: next to every compressed file X.gz of the family that exists then,
    /// a foreign sub-directory X (the name the file had before it was compressed) appears
    #[serde(default)]
    pub gz_twin_dirs: bool,
}

pub struct P;

fn sample_infixes(cfg: &FileCfg, t0_ns: i64) -> Vec<String> {
    let mut v = Vec::new();
    if let Some(nam) = cfg.nam() {
        if let Some(tok) = nam.current_token() {
            if !tok.is_empty() {
                v.push(tok);
            }
        }
        match nam.ts_format() {
            None => {
                v.push("r00000".into());
                v.push("r00001".into());
                v.push("r00002".into());
            }
            Some(fmt) => {
                let t = ns_to_local(t0_ns);
                v.push(if cfg.utc { t.naive_utc().format(&fmt).to_string() } else { t.format(&fmt).to_string() });
            }
        }
    }
    v
}

/// near misses of the family pattern; only names the reference predicate calls foreign survive
pub fn foreign_candidates(cfg: &FileCfg, t0_ns: i64) -> Vec<String> {
    let prefix = cfg.static_prefix();
    let sfx = cfg.suffix.clone().map(|s| format!(".{s}")).unwrap_or_default();
    let sep = if prefix.is_empty() { "" } else { "_" };
    let mut c: Vec<String> = Vec::new();
    let infixes = sample_infixes(cfg, t0_ns);
    let other_scheme = if cfg.nam().is_some_and(Nam::is_ts) { vec!["r00001".to_string(), "r00000".to_string()] } else { vec!["r2024-03-10_11-30-30".to_string()] };
    let mut short_prefix = prefix.clone();
    short_prefix.pop();
    for infix in infixes.iter().chain(other_scheme.iter()) {
        // other basename / discriminant sharing a prefix
        c.push(format!("{prefix}x{sep}{infix}{sfx}"));
        c.push(format!("{prefix}é{sep}{infix}{sfx}"));
        c.push(format!("{prefix}_other_{infix}{sfx}"));
        if !short_prefix.is_empty() {
            c.push(format!("{short_prefix}_{infix}{sfx}"));
        }
        // other suffix, missing suffix, extra dots
        c.push(format!("{prefix}{sep}{infix}.other"));
        c.push(format!("{prefix}{sep}{infix}{sfx}x"));
        c.push(format!("{prefix}{sep}{infix}.bak{sfx}"));
        c.push(format!("{prefix}{sep}{infix}{sfx}.bak"));
        c.push(format!("{prefix}{sep}{infix}{sfx}.gz.gz"));
        c.push(format!("{prefix}{sep}{infix}{sfx}.gz.bak"));
        c.push(format!("{prefix}{sep}{infix}.1{sfx}"));
        if !sfx.is_empty() {
            c.push(format!("{prefix}{sep}{infix}"));
            c.push(format!("{prefix}{sep}{infix}.gz"));
        }
        // infix-like fragments
        c.push(format!("{prefix}{sep}{infix}x{sfx}"));
        c.push(format!("{prefix}{sep}x{infix}{sfx}"));
        c.push(format!("{prefix}{sep}{infix}_1{sfx}"));
        if !prefix.is_empty() {
            c.push(format!("{prefix}{infix}{sfx}"));
            c.push(format!("{prefix}-{infix}{sfx}"));
            c.push(format!("{prefix}__{infix}{sfx}"));
        }
        // malformed restart extensions
        c.push(format!("{prefix}{sep}{infix}.restart-1{sfx}"));
        c.push(format!("{prefix}{sep}{infix}.restart-00000{sfx}"));
        c.push(format!("{prefix}{sep}{infix}.restart-abcd{sfx}"));
        c.push(format!("{prefix}{sep}{infix}.restart{sfx}"));
    }
    if cfg.nam().is_some_and(Nam::is_ts) {
        // what a lenient timestamp parser accepts, but the logger never writes: fields without
        // zero padding, a sign, a blank
        for infix in &infixes {
            let mut vs = vec![infix.replacen("-0", "-", 1), infix.replacen("_0", "_", 1), infix.replacen("0", "", 1)];
            if let Some(pos) = infix.find(|ch: char| ch.is_ascii_digit()) {
                let (a, b) = infix.split_at(pos);
                vs.push(format!("{a}+{b}"));
                vs.push(format!("{a} {b}"));
            }
            for v in vs {
                if v != *infix {
                    c.push(format!("{prefix}{sep}{v}{sfx}"));
                }
            }
        }
    }
    for near in [
        "r0001", "r1", "r", "rX", "r0000a", "rCURRENT2", "rcurrent", "CURRENT", "r2024-03-10_11-30", "r2024-13-45_99-99-99", "r2024-03-10", "2024-03-10_11-30-30", "00001",
        // digits that are numeric in Unicode but not ASCII (full-width, Arabic-Indic, superscript)
        "r0000５", "r１２３４５", "r١٢٣٤٥", "r١٢٣", "r000²0", "r２０２４-03-10_11-30-30", "r2024-03-10_11-30-3０",
    ] {
        c.push(format!("{prefix}{sep}{near}{sfx}"));
    }
    if cfg.rot.is_some() && !(prefix.is_empty() && sfx.is_empty()) {
        c.push(format!("{prefix}{sfx}"));
        c.push(format!("{prefix}{sep}{sfx}"));
    }
    c.push("unrelated.txt".into());
    c.push(format!("x{prefix}{sep}r00001{sfx}"));
    c.retain(|n| !n.is_empty() && n.len() < 250 && n != "." && n != ".." && !n.contains('/') && classify(cfg, n).is_none());
    c.sort();
    c.dedup();
    c
}

/// flexi_logger's own (lenient) view of which names belong to the family, re-implemented from
/// FileSpec::filter_files + InfixFilter: the extension must be the suffix (or gz), the stem must
/// start with "<fixed>_", and only the part of the rest up to the first '.' is looked at.
/// This is the filter of the pinned tree, repaired by f3ef7d9 (formerly finding KF-C14-1); the
/// predicate is kept to classify such names in the evidence.
pub fn lenient_family(cfg: &FileCfg, name: &str) -> bool {
    let p = std::path::Path::new(name);
    let ext = p.extension().map(|e| e.to_string_lossy().to_string());
    let ext_ok = match (&cfg.suffix, &ext) {
        (_, Some(e)) if e == "gz" => true,
        (Some(s), Some(e)) => s == e,
        (Some(_), None) => false,
        (None, _) => true,
    };
    if !ext_ok {
        return false;
    }
    let Some(stem) = p.file_stem().map(|s| s.to_string_lossy().to_string()) else { return false };
    let prefix = cfg.static_prefix();
    let rest = if prefix.is_empty() {
        stem.as_str()
    } else {
        match stem.strip_prefix(prefix.as_str()).and_then(|s| s.strip_prefix('_')) {
            Some(r) => r,
            None => return false,
        }
    };
    if rest.is_empty() {
        return false;
    }
    let infix = rest.split('.').next().unwrap_or(rest);
    let Some(nam) = cfg.nam() else { return false };
    if let Some(tok) = nam.current_token() {
        if !tok.is_empty() && infix == tok {
            return true;
        }
    }
    if infix == "rCURRENT" {
        return true; // LogfileSelector::with_r_current
    }
    match nam.ts_format() {
        None => {
            let mut ch = infix.chars();
            infix.len() > 2 && ch.next() == Some('r') && ch.next().is_some_and(|c| c.is_ascii_digit())
        }
        Some(fmt) => match chrono::NaiveDateTime::parse_from_str(infix, &fmt) {
            Ok(_) => true,
            Err(e) if e.kind() == chrono::format::ParseErrorKind::NotEnough => chrono::NaiveDate::parse_from_str(infix, &fmt).is_ok(),
            Err(_) => false,
        },
    }
}
pub const SIG_LENIENT: &str = "foreign-name-passes-lenient-family-filter";

/// names of the family pattern itself that the histories never produce (a far index, a far
/// future instant): used for SUB-DIRECTORIES "named like log files" only
pub fn family_named_dirs(cfg: &FileCfg, t0_ns: i64) -> Vec<String> {
    let prefix = cfg.static_prefix();
    let sfx = cfg.suffix.clone().map(|s| format!(".{s}")).unwrap_or_default();
    let sep = if prefix.is_empty() { "" } else { "_" };
    let mut v = Vec::new();
    if let Some(nam) = cfg.nam() {
        match nam.ts_format() {
            None => {
                v.push(format!("{prefix}{sep}r77777{sfx}"));
                v.push(format!("{prefix}{sep}r77778{sfx}.gz"));
            }
            Some(fmt) => {
                let t = ns_to_local(t0_ns + 40 * 366 * 86_400 * 1_000_000_000);
                let infix = if cfg.utc { t.naive_utc().format(&fmt).to_string() } else { t.format(&fmt).to_string() };
                v.push(format!("{prefix}{sep}{infix}{sfx}"));
                v.push(format!("{prefix}{sep}{infix}.restart-0000{sfx}.gz"));
            }
        }
    }
    v.retain(|n| classify(cfg, n).is_some());
    v
}

fn selector(bits: u8, custom: Option<String>) -> LogfileSelector {
    let mut s = if bits & 1 != 0 { LogfileSelector::default() } else { LogfileSelector::none() };
    if bits & 2 != 0 {
        s = s.with_r_current();
    }
    if bits & 4 != 0 {
        s = s.with_compressed_files();
    }
    if bits & 8 != 0 {
        s = s.with_custom_current(&custom.unwrap_or_else(|| "cur".to_string()));
    }
    s
}

#[derive(Debug, PartialEq, Eq, Clone)]
struct RunObs {
    /// family files: name -> decompressed content
    family: BTreeMap<String, Vec<u8>>,
    listed: Vec<Vec<String>>,
    errors: usize,
}

fn one_run(case: &Case, with_foreign: bool, sc: &Scratch, tag: &str) -> Result<(RunObs, Vec<Entry>, Vec<Entry>), (String, String)> {
    let cfg = &case.mr.cfg;
    let dir = sc.sub(tag);
    let err = sc.sub(&format!("{tag}.err"));
    let _ = std::fs::create_dir_all(&dir);
    h().reset_births();
    let mut before = Vec::new();
    if with_foreign {
        for f in &case.foreign {
            let p = dir.join(&f.name);
            match &f.kind {
                FKind::File(b) => {
                    let _ = std::fs::write(&p, b);
                }
                FKind::Dir => {
                    let _ = std::fs::create_dir(&p);
                    let _ = std::fs::write(p.join("inner.txt"), b"inner");
                }
                FKind::DanglingSymlink => {
                    let _ = std::os::unix::fs::symlink("/nonexistent/flv-target", &p);
                }
            }
        }
        before = snapshot(&dir).into_iter().filter(|e| classify(cfg, &e.name).is_none() || case.foreign.iter().any(|f| f.name == e.name)).collect();
    }
    let custom = cfg.nam().and_then(Nam::current_token);
    let mut listed = Vec::new();
    let res = execute(&case.mr, &dir, Some(&err), None, true, &mut |ev| {
        if let Event::RunStart { run, snap } = &ev {
            if *run >= 1 && with_foreign && case.gz_twin_dirs {
                for e in snap.iter() {
                    if e.kind == EKind::File && classify(cfg, &e.name).is_some_and(|p| p.gz) {
                        if let Some(plain) = e.name.strip_suffix(".gz") {
                            let p = dir.join(plain);
                            if !p.exists() && std::fs::create_dir(&p).is_ok() {
                                let _ = std::fs::write(p.join("inner.txt"), b"inner");
                            }
                        }
                    }
                }
            }
        }
        if let Event::AfterOp { op, sess, .. } = ev {
            if matches!(op, Op::Rotate) {
                if let Ok(l) = sess.existing(&selector(case.selector, custom.clone())) {
                    let mut names: Vec<String> = l.iter().map(|p| p.file_name().map(|n| n.to_string_lossy().to_string()).unwrap_or_default()).collect();
                    names.sort();
                    listed.push(names);
                }
            }
        }
        Ok(())
    });
    res?;
    let snap = snapshot(&dir);
    let mut family = BTreeMap::new();
    for e in &snap {
        if e.kind == EKind::File && classify(cfg, &e.name).is_some() && !(with_foreign && case.foreign.iter().any(|f| f.name == e.name)) {
            family.insert(e.name.clone(), e.content.clone().unwrap_or_default());
        }
    }
    let after: Vec<Entry> = snap.into_iter().filter(|e| classify(cfg, &e.name).is_none() || (with_foreign && case.foreign.iter().any(|f| f.name == e.name))).collect();
    let errors = std::fs::read_to_string(&err).map(|e| crate::util::filter_errchan(&e).lines().filter(|l| l.contains("[flexi_logger]")).count()).unwrap_or(0);
    Ok((RunObs { family, listed, errors }, before, after))
}

impl Property for P {
    type Case = Case;
    const ID: &'static str = "C14";
    const LEVEL: &'static str = "exploration";
    fn rule() -> String {
        "differential twin runs (proptest): a multi-run history (1-3 runs, rotations, restarts, all namings, all cleanup strategies incl. compression, synchronous modes) is executed twice under the same virtual clock - once in a directory pre-populated with 1-8 foreign entries, once in an empty directory. Foreign entries are produced by mutating real family names of the configuration (longer/shorter basename sharing a prefix, multi-byte character after the fixed part, other discriminant, other/missing suffix, extra dots before and after the suffix, .gz.gz, missing infix, infix-like fragments, the other naming scheme's infix, near-miss infixes like r0001/rCURRENT2/truncated or invalid timestamps, malformed .restart- extensions) as files, sub-directories or dangling symlinks; only names that the reference family predicate classifies as foreign are used. Oracle: (1) every foreign entry has identical name, inode, size, mtime and bytes afterwards; (2) the twin runs produce identical family file names and decompressed contents, identical existing_log_files answers (queried after every forced rotation, foreign names never listed) and the same number of error-channel messages. Non-trivial = at least one foreign name starts with the logger's fixed name part and at least one rotation with cleanup or a restart ran while it was present; distinct = distinct serialized case".into()
    }
    fn assumptions() -> Vec<String> {
        vec!["the reference family predicate (src/observe.rs: configured name parts, '_', an infix of the active naming scheme, optional .restart-NNNN, the configured suffix, optional .gz) defines what 'foreign' means".into()]
    }
    fn cases(tier: Tier) -> u64 {
        match tier {
            Tier::Quick => 30_000,
            Tier::Thorough => 400_000,
        }
    }
    fn strategy(_tier: Tier) -> BoxedStrategy<Case> {
        (rot_cfg_strat(cleanup_strat(), sync_mode_strat()), vinst_strat())
            .prop_flat_map(|(cfg, t0)| {
                let runs = runs_strat(&cfg, 3, false, 16);
                let all = foreign_candidates(&cfg, t0.to_ns());
                let foreign = Just(()).prop_flat_map(move |()| {
                    let cands = all.clone();
                    let n = cands.len();
                    proptest::sample::subsequence(cands, 1..=n.min(8))
                }).prop_flat_map(|names| {
                    let k = names.len();
                    (Just(names), prop::collection::vec(prop_oneof![6 => prop::collection::vec(any::<u8>(), 0..30).prop_map(FKind::File), 1 => Just(FKind::Dir), 1 => Just(FKind::DanglingSymlink)], k..=k))
                });
                let fam_dirs = family_named_dirs(&cfg, t0.to_ns());
                let nfd = fam_dirs.len();
                let dirs = prop::bool::weighted(0.25).prop_flat_map(move |with| {
                    if with && nfd > 0 { proptest::sample::subsequence(fam_dirs.clone(), 1..=nfd).boxed() } else { Just(Vec::new()).boxed() }
                });
                (Just(cfg), Just(t0), runs, foreign, 0u8..16, dirs, prop::bool::weighted(0.3))
            })
            .prop_map(|(cfg, t0, runs, (names, kinds), selector, dirs, gz_twin_dirs)| {
                let mut foreign: Vec<Foreign> = names.into_iter().zip(kinds).map(|(name, kind)| Foreign { name, kind }).collect();
                for d in dirs {
                    foreign.push(Foreign { name: d, kind: FKind::Dir });
                }
                Case { mr: MrCase { tz: crate::vtime::tz_name(), cfg, t0, runs }, foreign, selector, gz_twin_dirs }
            })
            .boxed()
    }

    fn run(case: &Case) -> Outcome {
        let mut out = Outcome::ok();
        let sc = Scratch::new("c14");
        let cfg = &case.mr.cfg;
        out.class(cfg.nam().map_or("nam:none", |n| n.label()));
        let (a, before, after) = match one_run(case, true, &sc, "with") {
            Ok(x) => x,
            Err((sig, msg)) => return Outcome::fail(format!("with-foreign:{sig}"), msg),
        };
        let (b, _, _) = match one_run(case, false, &sc, "clean") {
            Ok(x) => x,
            Err((sig, msg)) => return Outcome::fail(format!("clean-run:{sig}"), msg),
        };
        // (1) foreign entries untouched
        for e in &before {
            match after.iter().find(|x| x.raw_name == e.raw_name) {
                None => {
                    out.set_fail("foreign-entry-removed-or-renamed", format!("foreign entry {:?} ({:?}) is gone; remaining foreign entries: {:?}", e.name, e.kind, after.iter().map(|x| x.name.clone()).collect::<Vec<_>>()));
                    break;
                }
                Some(x) => {
                    if x.kind != e.kind || x.ino != e.ino || x.size != e.size || x.bytes != e.bytes || x.mtime_ns != e.mtime_ns {
                        out.set_fail("foreign-entry-modified", format!("foreign entry {:?} changed: kind {:?}->{:?}, inode {}->{}, size {}->{}, bytes {:?}->{:?}", e.name, e.kind, x.kind, e.ino, x.ino, e.size, x.size, lossy(&e.bytes), lossy(&x.bytes)));
                        break;
                    }
                }
            }
        }
        if out.fail.is_none() {
            if let Some(x) = after.iter().find(|x| !before.iter().any(|e| e.raw_name == x.raw_name)) {
                out.set_fail("logger-created-foreign-entry", format!("the logger created {:?}, which is outside its documented naming pattern", x.name));
            }
        }
        // (2) twin runs agree
        if out.fail.is_none() && a.family != b.family {
            let an: Vec<_> = a.family.iter().map(|(n, c)| format!("{n}[{}B]", c.len())).collect();
            let bn: Vec<_> = b.family.iter().map(|(n, c)| format!("{n}[{}B]", c.len())).collect();
            out.set_fail("family-files-differ-from-clean-run", format!("with foreign entries {:?}: {an:?}; clean directory: {bn:?}", case.foreign.iter().map(|f| f.name.clone()).collect::<Vec<_>>()));
        }
        if out.fail.is_none() && a.listed != b.listed {
            out.set_fail("existing-log-files-differ-from-clean-run", format!("with foreign entries: {:?}; clean directory: {:?}", a.listed, b.listed));
        }
        if out.fail.is_none() && a.errors != b.errors {
            out.set_fail("error-reports-differ-from-clean-run", format!("{} error-channel messages with foreign entries, {} in the clean directory", a.errors, b.errors));
        }
        let prefix = cfg.static_prefix();
        let shares = case.foreign.iter().any(|f| !prefix.is_empty() && f.name.starts_with(&prefix) || prefix.is_empty());
        let relevant = case.mr.runs.len() > 1 || (cfg.rot.as_ref().is_some_and(|r| r.cln != Cln::Never) && case.mr.runs.iter().any(|r| r.ops.iter().any(|o| matches!(o, Op::Rotate))));
        if shares {
            out.class("foreign-shares-name-prefix");
        }
        if case.foreign.iter().any(|f| matches!(f.kind, FKind::Dir)) {
            out.class("foreign-directory");
        }
        if case.foreign.iter().any(|f| matches!(f.kind, FKind::Dir) && classify(cfg, &f.name).is_some()) {
            out.class("sub-directory-with-family-name");
        }
        if shares && relevant {
            out.nontrivial = true;
        }
        let lenient = case.foreign.iter().any(|f| lenient_family(cfg, &f.name) && classify(cfg, &f.name).is_none());
        if lenient {
            out.class("name-the-former-lenient-filter-adopted");
        }
        if crate::props::unsortable_format_with_cleanup(cfg) {
            if let Some(f) = out.fail.take() {
                out.set_fail(crate::props::SIG_UNSORTABLE, format!("{}: {}", f.sig, f.msg));
            }
        }
        out
    }
}
