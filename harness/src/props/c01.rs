//! C01 Rotated log stream is complete, duplicate-free and in order.
use crate::fscn::*;
use crate::hist::*;
use crate::observe::{family, snapshot, stream_of, Kind};
use crate::runner::{Outcome, Property, Tier};
use crate::util::{diff_msg, Scratch};
use crate::vtime::{vinst_strat, VInst};
use proptest::prelude::*;
use serde::{Deserialize, Serialize};

#[derive(Clone, Debug, Serialize, Deserialize)]
pub enum Terminal {
    Flush,
    Shutdown,
    Drop,
}

#[derive(Clone, Debug, Serialize, Deserialize)]
pub struct Case {
    pub tz: String,
    pub cfg: FileCfg,
    pub t0: Option<VInst>,
    pub append: bool,
    pub ops: Vec<Op>,
    pub terminal: Terminal,
}

pub struct P;

pub fn cfg_strat() -> BoxedStrategy<FileCfg> {
    (
        prop::option::weighted(0.85, rot_pair_strat()),
        sync_mode_strat(),
        suffix_strat(),
        any::<bool>(),
        prop::bool::weighted(0.15),
        prop::bool::weighted(0.15),
        prop::bool::weighted(0.5),
        prop::bool::weighted(0.15),
        crate::mr::build_variant_strat(),
    )
        .prop_flat_map(|(rot, mode, suffix, crlf, start_ts, utc, via_logger, symlink, build_variant)| {
            let empty_infix = match &rot {
                None => true,
                Some((_, n)) => n.current_token().as_deref() == Some(""),
            };
            let need_fixed = empty_infix && !start_ts;
            name_parts(need_fixed).prop_map(move |(basename, discr)| FileCfg {
                basename,
                discr,
                suffix: suffix.clone(),
                start_ts,
                rot: rot.clone().map(|(crit, nam)| Rot {
                    crit,
                    nam,
                    cln: Cln::Never,
                }),
                mode,
                crlf,
                utc,
                symlink,
                bg_cleanup: false,
                via_logger: via_logger && !utc,
                build_variant,
            })
        })
        .boxed()
}

impl Property for P {
    type Case = Case;
    const ID: &'static str = "C01";
    const LEVEL: &'static str = "exploration";
    fn rule() -> String {
        "proptest-generated (file configuration x operation history) cases: naming scheme x criterion x synchronous write mode x line ending x name parts x Vec<Write(len)|Rotate|Flush|Advance>, under a virtual clock (10% real clock); oracle: rotated files in semantic order + current file == concatenation of all logged lines. Non-trivial = at least 2 family files exist at the end and at least one record was written after a rotation; distinct = distinct serialized case".into()
    }
    fn assumptions() -> Vec<String> {
        vec![
            "semantic order of rotated files is by index, resp. by (timestamp, restart number) as parsed by the harness's own name grammar".into(),
            "virtual clock via the verif_hooks feature; the file system is tmpfs (/dev/shm)".into(),
            "with a [starttime] name part all files of the run must carry the start time of the run (the name grammar accepts any well-formed start time; C16 checks its value)".into(),
        ]
    }
    fn cases(tier: Tier) -> u64 {
        match tier {
            Tier::Quick => 60_000,
            Tier::Thorough => 1_500_000,
        }
    }
    fn strategy(_tier: Tier) -> BoxedStrategy<Case> {
        cfg_strat()
            .prop_flat_map(|cfg| {
                let n = cfg.rot.as_ref().and_then(|r| r.crit.size());
                let cap = cfg.mode.buffer_cap();
                let le = cfg.line_ending().len();
                // ([starttime] is fixed when the writer is built - repaired by c68046a - so the clock
                // may advance during the history)
                let with_time = true;
                (
                    Just(cfg),
                    prop::option::weighted(0.9, vinst_strat()),
                    any::<bool>(),
                    ops_strat(n, cap, le, with_time, 60),
                    prop_oneof![Just(Terminal::Flush), Just(Terminal::Shutdown), Just(Terminal::Drop)],
                )
            })
            .prop_map(|(cfg, t0, append, ops, terminal)| Case {
                tz: crate::vtime::tz_name(),
                cfg,
                t0,
                append,
                ops,
                terminal,
            })
            .boxed()
    }

    fn run(case: &Case) -> Outcome {
        let mut out = Outcome::ok();
        let sc = Scratch::new("c01");
        let dir = sc.sub("logs");
        let err = sc.sub("errors.txt");
        let link = sc.sub("link");
        let cfg = &case.cfg;
        let mut ex = Exec::new(cfg, case.t0);
        let sess = match Sess::start(cfg, &dir, case.append, Some(&err), cfg.symlink.then_some(link.as_path())) {
            Ok(s) => s,
            Err(e) => return Outcome::fail("start-failed", e),
        };
        for op in &case.ops {
            if let Err(e) = ex.apply(&sess, op) {
                sess.shutdown();
                return Outcome::fail("op-failed", e);
            }
        }
        out.class(cfg.mode.label());
        out.class(cfg.nam().map_or("nam:none", |n| n.label()));
        if cfg.crlf {
            out.class("crlf");
        }
        if case.t0.is_none() {
            out.class("real-clock");
        }
        if cfg.via_logger {
            out.class("via-logger");
        }
        let expected = ex.model.expected_stream();
        let check = |stage: &str, out: &mut Outcome| -> bool {
            let snap = snapshot(&dir);
            let fam = match family(cfg, &snap) {
                Ok(f) => f,
                Err(e) => {
                    out.set_fail("family-illformed", e);
                    return false;
                }
            };
            let stray = stray_entries(cfg, &snap);
            if !stray.is_empty() {
                out.set_fail(
                    "stray-file",
                    format!("{stage}: entries outside the documented naming pattern: {stray:?}"),
                );
                return false;
            }
            let got = stream_of(&fam);
            if got != expected {
                out.set_fail(
                    "stream-mismatch",
                    format!(
                        "{stage}: {} ; files: {}",
                        diff_msg(&expected, &got),
                        dir_listing(&dir)
                    ),
                );
                return false;
            }
            if fam.iter().filter(|f| matches!(f.parsed.kind, Kind::Current | Kind::Plain)).count() > 1 {
                out.set_fail("two-current-files", format!("{stage}: {}", dir_listing(&dir)));
                return false;
            }
            if fam.len() >= 2 && ex.model.writes_after_rotation > 0 {
                out.nontrivial = true;
            }
            if fam.iter().any(|f| f.parsed.infix.contains(".restart-")) {
                out.class("restart-suffix");
            }
            true
        };
        match case.terminal {
            Terminal::Flush => {
                sess.flush();
                let ok = check("after flush()", &mut out);
                sess.shutdown();
                if ok {
                    check("after shutdown()", &mut out);
                }
            }
            Terminal::Shutdown => {
                sess.shutdown();
                check("after shutdown()", &mut out);
            }
            Terminal::Drop => {
                sess.drop_only();
                check("after drop", &mut out);
            }
        }
        if ex.model.rotations_forced > 0 {
            out.class("forced-rotation");
        }
        if ex.model.rotations_by_age > 0 {
            out.class("age-rotation");
        }
        if ex.model.rotations_by_size > 0 {
            out.class("size-rotation");
        }
        if case.ops.iter().any(|o| matches!(o, Op::Write(0))) {
            out.class("empty-record");
        }
        if out.fail.is_none() {
            if let Ok(e) = std::fs::read_to_string(&err) {
                let e = crate::util::filter_errchan(&e);
                if !e.is_empty() {
                    out.set_fail("error-channel-output", format!("unexpected error channel output: {}", crate::util::lossy(e.as_bytes())));
                }
            }
        }
        out
    }
}
