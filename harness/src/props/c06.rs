//! C06 Restarting a logger never destroys or reorders earlier runs' records.
use crate::fscn::*;
use crate::mr::*;
use crate::observe::{family, stream_of, Entry, FamFile, Kind};
use crate::runner::{Outcome, Property, Tier};
use crate::util::{diff_msg, lossy, Scratch};
use crate::vtime::vinst_strat;
use proptest::prelude::*;

pub struct P;

fn strip_gz(n: &str) -> &str {
    n.strip_suffix(".gz").unwrap_or(n)
}

/// rotated (closed) files of a snapshot: (name without .gz, content)
fn closed_files(cfg: &FileCfg, fam: &[FamFile]) -> Vec<(String, Vec<u8>)> {
    let direct = cfg.nam().is_some_and(|n| !n.rename_style());
    let n = fam.len();
    fam.iter()
        .enumerate()
        .filter(|(i, f)| matches!(f.parsed.kind, Kind::Rotated(_)) && !(direct && *i + 1 == n))
        .map(|(_, f)| (strip_gz(&f.name).to_string(), f.content.clone()))
        .collect()
}

impl Property for P {
    type Case = MrCase;
    const ID: &'static str = "C06";
    const LEVEL: &'static str = "exploration";
    fn rule() -> String {
        "model-based multi-run histories (proptest): 2-5 runs on one file configuration (all namings, rotation on/off, all criteria, synchronous write modes, all cleanup strategies incl. compression, executed synchronously), per run append on/off and a history of Write|Rotate|Advance, gaps between runs in {0,1ms,999ms,1s,61s,1d,40d} of virtual time, and between runs optional directory manipulations that reproduce states a previous run can leave (all rotated files gzipped, current file missing, a rotated file missing). Oracle after every run: (1) stream: family files in semantic order (gunzipped) == stream before the run + this run's lines (Cleanup::Never), resp. a suffix of it (with cleanup) - except the documented truncation (no rotation, no append, at least one write); (2) immutability: every closed (rotated) file of the previous snapshot still exists under the same name (plus/minus .gz) with identical decompressed bytes, or it is gone and older than every surviving closed file while a cleanup limit is configured. Non-trivial = at least 2 runs wrote records and a later run started on a non-empty directory; distinct = distinct serialized case".into()
    }
    fn assumptions() -> Vec<String> {
        vec![
            "the [starttime] name part is not used here (every start would get its own file; see C16)".into(),
            "cleanup runs synchronously (background cleanup is covered by C07)".into(),
        ]
    }
    fn cases(tier: Tier) -> u64 {
        match tier {
            Tier::Quick => 60_000,
            Tier::Thorough => 1_500_000,
        }
    }
    fn strategy(_tier: Tier) -> BoxedStrategy<MrCase> {
        let rotating = rot_cfg_strat(cleanup_strat(), sync_mode_strat());
        let plain = (sync_mode_strat(), suffix_strat(), name_parts(true), any::<bool>()).prop_map(|(mode, suffix, (basename, discr), via_logger)| FileCfg {
            basename,
            discr,
            suffix,
            start_ts: false,
            rot: None,
            mode,
            crlf: false,
            utc: false,
            symlink: false,
            bg_cleanup: false,
            via_logger,
            build_variant: 0,
        });
        prop_oneof![8 => rotating, 1 => plain]
            .prop_flat_map(|cfg| {
                let runs = runs_strat(&cfg, 5, cfg.rot.is_some(), 14);
                (Just(cfg), vinst_strat(), runs)
            })
            .prop_map(|(cfg, t0, runs)| MrCase { tz: crate::vtime::tz_name(), cfg, t0, runs })
            .boxed()
    }

    fn run(case: &MrCase) -> Outcome {
        let mut out = Outcome::ok();
        let sc = Scratch::new("c06");
        let dir = sc.sub("logs");
        let err = sc.sub("errors.txt");
        let cfg = &case.cfg;
        out.class(cfg.nam().map_or("nam:none", |n| n.label()));
        let cln = cfg.rot.as_ref().map_or(Cln::Never, |r| r.cln);
        out.class(match cln {
            Cln::Never => "cleanup:never",
            Cln::Keep(_) => "cleanup:keep-plain",
            _ => "cleanup:with-compression",
        });
        let mut base_stream: Vec<u8> = Vec::new();
        let mut base_closed: Vec<(String, Vec<u8>)> = Vec::new();
        let mut runs_that_wrote = 0;
        let mut started_nonempty = false;
        let res = execute(case, &dir, Some(&err), None, false, &mut |ev| {
            match ev {
                Event::RunStart { run, snap } => {
                    let fam = family(cfg, snap).map_err(|e| ("family-illformed".to_string(), e))?;
                    base_stream = stream_of(&fam);
                    base_closed = closed_files(cfg, &fam);
                    if run > 0 && !base_stream.is_empty() && runs_that_wrote > 0 {
                        started_nonempty = true;
                    }
                }
                Event::RunEnd { run, snap, lines, wrote, .. } => {
                    if wrote {
                        runs_that_wrote += 1;
                    }
                    let fam = family(cfg, snap).map_err(|e| ("family-illformed".to_string(), e))?;
                    let got = stream_of(&fam);
                    let append = case.runs[run].append;
                    let truncating = cfg.rot.is_none() && !append && wrote;
                    let mut expected = if truncating { Vec::new() } else { base_stream.clone() };
                    expected.extend_from_slice(lines);
                    let listing = || fam.iter().map(|f| format!("{}[{}B]", f.name, f.content.len())).collect::<Vec<_>>().join(", ");
                    if cln == Cln::Never {
                        if got != expected {
                            return Err((
                                "restart-stream-mismatch".into(),
                                format!("after run #{run} (append={append}): {}; files: {}", diff_msg(&expected, &got), listing()),
                            ));
                        }
                    } else if !expected.ends_with(&got) {
                        return Err((
                            "restart-stream-not-a-tail".into(),
                            format!("after run #{run} (append={append}, {cln:?}): surviving stream is no suffix of the logged stream; got {:?}, logged {:?}; files: {}", lossy(&got), lossy(&expected), listing()),
                        ));
                    }
                    // immutability of closed files
                    let now_closed = closed_files(cfg, &fam);
                    let all_now: Vec<(String, &Vec<u8>)> = fam.iter().map(|f| (strip_gz(&f.name).to_string(), &f.content)).collect();
                    let oldest_survivor = now_closed.first().map(|(n, _)| n.clone());
                    for (name, content) in &base_closed {
                        match all_now.iter().find(|(n, _)| n == name) {
                            Some((_, c)) => {
                                if *c != content {
                                    return Err((
                                        "closed-file-altered".into(),
                                        format!("after run #{run}: rotated file {name} of an earlier run changed from {:?} to {:?}", lossy(content), lossy(c)),
                                    ));
                                }
                            }
                            None => {
                                if cln == Cln::Never {
                                    return Err(("closed-file-vanished".into(), format!("after run #{run}: rotated file {name} vanished although no cleanup is configured; files: {}", listing())));
                                }
                                // must be older than every surviving closed file: all survivors
                                // that were already there before must come after it in the
                                // previous order
                                let pos_gone = base_closed.iter().position(|(n, _)| n == name).unwrap();
                                let newer_gone_older_kept = base_closed.iter().enumerate().any(|(i, (n, _))| i < pos_gone && all_now.iter().any(|(m, _)| m == n));
                                if newer_gone_older_kept {
                                    return Err((
                                        "newer-file-removed-older-kept".into(),
                                        format!("after run #{run}: {name} was removed although an older rotated file survives; files: {}", listing()),
                                    ));
                                }
                                let _ = &oldest_survivor;
                            }
                        }
                    }
                }
                Event::AfterOp { .. } | Event::Started { .. } => {}
            }
            Ok(())
        });
        if let Err((sig, msg)) = res {
            if crate::props::unsortable_format_with_cleanup(cfg) {
                out.set_fail(crate::props::SIG_UNSORTABLE, format!("{sig}: {msg}"));
            } else {
                out.set_fail(sig, msg);
            }
        }
        if case.runs.iter().skip(1).any(|r| !r.manips.is_empty()) {
            out.class("directory-manipulated-between-runs");
        }
        if case.runs.iter().skip(1).any(|r| r.gap_ms < 1000) {
            out.class("restart-within-a-second");
        }
        if case.runs.iter().skip(1).any(|r| r.append) {
            out.class("append-restart");
        }
        if case.runs.iter().skip(1).any(|r| !r.append) {
            out.class("non-append-restart");
        }
        if out.fail.is_none() {
            if let Ok(e) = std::fs::read_to_string(&err) {
                let e = crate::util::filter_errchan(&e);
                if !e.is_empty() {
                    out.set_fail("error-channel-output", format!("unexpected error channel output: {}", lossy(e.as_bytes())));
                }
            }
        }
        if runs_that_wrote >= 2 && started_nonempty {
            out.nontrivial = true;
        }
        out
    }
}

#[allow(dead_code)]
fn unused(_: &[Entry]) {}
