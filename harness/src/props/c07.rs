//! C07 Cleanup keeps exactly the newest files, compresses losslessly, spares current.
use crate::fscn::*;
use crate::hist::Op;
use crate::mr::*;
use crate::observe::{family, stream_of, FamFile, Kind};
use crate::runner::{Outcome, Property, Tier};
use crate::util::{lossy, Scratch};
use crate::vtime::vinst_strat;
use proptest::prelude::*;

pub struct P;

pub struct Counts {
    pub plain_rotated: usize,
    pub gz_rotated: usize,
}

pub fn counts(cfg: &FileCfg, fam: &[FamFile]) -> Counts {
    let direct = cfg.nam().is_some_and(|n| !n.rename_style());
    let n = fam.len();
    let mut c = Counts { plain_rotated: 0, gz_rotated: 0 };
    for (i, f) in fam.iter().enumerate() {
        if !matches!(f.parsed.kind, Kind::Rotated(_)) {
            continue;
        }
        if direct && i + 1 == n && !f.parsed.gz {
            continue; // the current file of a direct naming
        }
        if f.parsed.gz {
            c.gz_rotated += 1;
        } else {
            c.plain_rotated += 1;
        }
    }
    c
}

fn check_dir(cfg: &FileCfg, fam: &[FamFile], expected_stream: &[u8], avail_rotated: usize, when: &str, initialized: bool) -> Result<bool, (String, String)> {
    let Some((k, m)) = cfg.rot.as_ref().and_then(|r| r.cln.limits()) else {
        return Ok(false);
    };
    let listing = || fam.iter().map(|f| format!("{}[{}B]", f.name, f.content.len())).collect::<Vec<_>>().join(", ");
    let c = counts(cfg, fam);
    let direct = cfg.nam().is_some_and(|n| !n.rename_style());
    // upper bounds
    if c.plain_rotated > k {
        return Err(("too-many-plain-files".into(), format!("{when}: {} rotated plain files, limit {k}; files: {}", c.plain_rotated, listing())));
    }
    if c.gz_rotated > m {
        return Err(("too-many-compressed-files".into(), format!("{when}: {} compressed files, limit {m}; files: {}", c.gz_rotated, listing())));
    }
    // the survivors are the most recent ones: contiguous tail of the logged stream
    let got = stream_of(fam);
    if !expected_stream.ends_with(&got) {
        return Err((
            "survivors-are-no-contiguous-tail".into(),
            format!("{when}: surviving files (oldest to newest, decompressed) are no suffix of the logged stream: got {:?}, logged {:?}; files: {}", lossy(&got), lossy(expected_stream), listing()),
        ));
    }
    // the current file exists and is plain
    if initialized {
        let cur = if direct { fam.last() } else { fam.iter().find(|f| matches!(f.parsed.kind, Kind::Current)) };
        match cur {
            None => return Err(("current-file-missing".into(), format!("{when}: no current file; files: {}", listing()))),
            Some(f) if f.parsed.gz => return Err(("current-file-compressed".into(), format!("{when}: current file {} is compressed", f.name))),
            _ => {}
        }
    }
    // lower bounds: nothing is removed or compressed that the limits allow to keep
    if initialized {
        let slack = usize::from(direct);
        let total = c.plain_rotated + c.gz_rotated;
        let want_total = k.saturating_add(m).min(avail_rotated).saturating_sub(slack);
        if total < want_total {
            return Err((
                "fewer-files-kept-than-allowed".into(),
                format!("{when}: {total} rotated files survive, but {avail_rotated} were produced and the limits allow {}; files: {}", k.saturating_add(m), listing()),
            ));
        }
        if !direct && c.plain_rotated < k.min(avail_rotated) {
            return Err((
                "compressed-or-removed-too-early".into(),
                format!("{when}: only {} rotated plain files, but {} were produced and {k} may stay plain; files: {}", c.plain_rotated, avail_rotated, listing()),
            ));
        }
    }
    Ok(total_removed_or_compressed(fam, avail_rotated))
}

fn total_removed_or_compressed(fam: &[FamFile], avail: usize) -> bool {
    let rotated_now = fam.iter().filter(|f| matches!(f.parsed.kind, Kind::Rotated(_))).count();
    fam.iter().any(|f| f.parsed.gz) || rotated_now < avail
}

impl Property for P {
    type Case = MrCase;
    const ID: &'static str = "C07";
    const LEVEL: &'static str = "exploration";
    fn rule() -> String {
        "model-based histories (proptest): 1-3 runs of Write|Rotate|Advance (restarts with append on/off) x Cleanup in {KeepLogFiles(k), KeepCompressedFiles(m), KeepLogAndCompressedFiles(k,m)} with k,m in {0,1,2,3,5} x all namings x suffixes (log, none, txt, trc, l) x all criteria x cleanup executor: logging thread (checked after EVERY operation), background cleanup thread and async writer thread (checked after shutdown; scheduling noise at the cleanup/compress/rotate hook points). Oracle: #rotated plain <= k and #compressed <= m; survivors in semantic order (gunzipped) + current file == a suffix of the logged stream (contiguous tail, nothing newer missing, every .gz decompresses to the bytes of the chunk it replaced, no plain twin left); current file exists and is plain; lower bounds: rename-style namings keep exactly min(k, produced) plain files, and in total at least min(k+m, produced) rotated files (one less for direct namings, where the listing counts the current file). The number of produced files comes from the reference partition model. Non-trivial = cleanup removed or compressed at least one file and a later rotation happened; distinct = distinct serialized case".into()
    }
    fn assumptions() -> Vec<String> {
        vec![
            "for the background executors the OS decides the interleaving; hook-point noise (yield/short sleeps chosen from the seed) widens the windows, nothing is enumerated".into(),
        ]
    }
    fn replay_repeats() -> u32 {
        // the verdict can depend on the OS schedule (background threads)
        40
    }
    fn cases(tier: Tier) -> u64 {
        match tier {
            Tier::Quick => 15_000,
            Tier::Thorough => 400_000,
        }
    }
    fn strategy(_tier: Tier) -> BoxedStrategy<MrCase> {
        let cln = cleanup_strat().prop_filter("cleanup", |c| *c != Cln::Never).boxed();
        let modes = prop_oneof![4 => sync_mode_strat(), 1 => async_mode_strat()].boxed();
        (rot_cfg_strat(cln, modes), prop::bool::weighted(0.3))
            .prop_flat_map(|(mut cfg, bg)| {
                cfg.bg_cleanup = bg && !cfg.mode.is_async();
                let runs = runs_strat(&cfg, 3, false, 25);
                (Just(cfg), vinst_strat(), runs)
            })
            .prop_map(|(cfg, t0, mut runs)| {
                if cfg.mode.is_async() {
                    // forced rotation acts on the state while records are queued (not part of
                    // the property); the async writer reads the clock when it processes a record
                    for r in &mut runs {
                        r.ops.retain(|o| matches!(o, Op::Write(_)));
                    }
                }
                MrCase { tz: crate::vtime::tz_name(), cfg, t0, runs }
            })
            .boxed()
    }

    fn run(case: &MrCase) -> Outcome {
        let mut out = Outcome::ok();
        let sc = Scratch::new("c07");
        let dir = sc.sub("logs");
        let cfg = &case.cfg;
        let sync_cleanup = !cfg.bg_cleanup && !cfg.mode.is_async();
        out.class(cfg.nam().map_or("nam:none", |n| n.label()));
        out.class(if cfg.mode.is_async() { "executor:async-writer-thread" } else if cfg.bg_cleanup { "executor:background-thread" } else { "executor:logging-thread" });
        if !sync_cleanup {
            // scheduling noise at the hook points of cleanup and rotation
            let hh = crate::hooks::h();
            {
                let mut ps = hh.points.lock().unwrap();
                ps.noise_seed = crate::util::fnv(serde_json::to_string(case).unwrap().as_bytes());
                for n in ["cleanup.item", "cleanup.remove", "gz.create", "gz.copy", "gz.finish", "gz.remove_original", "rotate.mounted", "rotate.begin", "cleanup.thread", "rotate.rename", "open"] {
                    ps.noise_points.insert(n.to_string());
                }
            }
            hh.set_mode(crate::hooks::MODE_NOISE);
        }
        let mut did_cleanup = false;
        let mut rotation_after_cleanup = false;
        let res = execute(case, &dir, None, None, sync_cleanup, &mut |ev| {
            match ev {
                Event::AfterOp { run, op, snap, model, .. } => {
                    // buffered modes: compare only what has reached the file system? No: the
                    // stream oracle needs all bytes; with buffering the tail of the current
                    // file may still be in memory, so the suffix test is done on flushed state
                    if cfg.mode.buffer_cap().is_some() {
                        return Ok(());
                    }
                    let fam = family(cfg, snap).map_err(|e| ("family-illformed".to_string(), e))?;
                    let avail = model.chunks.len().saturating_sub(1);
                    let c = check_dir(cfg, &fam, &model.expected_stream(), avail, &format!("run #{run} after {op:?}"), model.initialized)?;
                    if did_cleanup && matches!(op, Op::Rotate | Op::Write(_)) && model.rotations() > 0 {
                        rotation_after_cleanup = true;
                    }
                    did_cleanup |= c;
                }
                Event::RunEnd { run, snap, model, .. } => {
                    let fam = family(cfg, snap).map_err(|e| ("family-illformed".to_string(), e))?;
                    let avail = model.chunks.len().saturating_sub(1);
                    let c = check_dir(cfg, &fam, &model.expected_stream(), avail, &format!("after shutdown of run #{run}"), model.initialized && model.run == run + 1)?;
                    if did_cleanup && model.rotations() > 0 {
                        rotation_after_cleanup = true;
                    }
                    did_cleanup |= c;
                }
                Event::RunStart { .. } | Event::Started { .. } => {}
            }
            Ok(())
        });
        crate::hooks::h().set_mode(crate::hooks::MODE_OFF);
        if let Err((sig, msg)) = res {
            if crate::props::unsortable_format_with_cleanup(cfg) {
                out.set_fail(crate::props::SIG_UNSORTABLE, format!("{sig}: {msg}"));
            } else {
                out.set_fail(sig, msg);
            }
        }
        if let Some(r) = &cfg.rot {
            if let Some((k, m)) = r.cln.limits() {
                if k == 0 {
                    out.class("k=0");
                }
                if m == 0 {
                    out.class("m=0");
                } else {
                    out.class("compression");
                }
            }
        }
        if case.runs.len() > 1 {
            out.class("restart");
        }
        if did_cleanup {
            out.class("cleanup-acted");
        }
        if did_cleanup && rotation_after_cleanup {
            out.nontrivial = true;
        }
        out
    }
}
