//! Structured virtual instants and advance steps (boundary-biased, not uniform), time zones.
use chrono::{Datelike, Local, NaiveDate, TimeZone, Timelike};
use proptest::prelude::*;
use serde::{Deserialize, Serialize};
use std::sync::OnceLock;

pub const MS: i64 = 1_000_000;
pub const SEC: i64 = 1_000_000_000;

/// a local wall-clock instant
#[derive(Clone, Copy, Debug, Serialize, Deserialize, PartialEq, Eq)]
pub struct VInst {
    pub y: i32,
    pub mo: u32,
    pub d: u32,
    pub h: u32,
    pub mi: u32,
    pub s: u32,
    pub ms: u32,
}
impl VInst {
    /// nanoseconds since the epoch of this local time in the process's time zone
    pub fn to_ns(self) -> i64 {
        let mut d = self.d;
        let date = loop {
            if let Some(x) = NaiveDate::from_ymd_opt(self.y, self.mo, d) {
                break x;
            }
            d -= 1;
        };
        let ndt = date
            .and_hms_milli_opt(self.h, self.mi, self.s, self.ms)
            .expect("valid time");
        let dt = Local
            .from_local_datetime(&ndt)
            .earliest()
            .unwrap_or_else(|| Local.from_utc_datetime(&ndt));
        dt.timestamp_nanos_opt().expect("in range")
    }
    pub fn default_inst() -> VInst {
        VInst {
            y: 2024,
            mo: 3,
            d: 10,
            h: 11,
            mi: 30,
            s: 30,
            ms: 0,
        }
    }
}

pub fn vinst_strat() -> BoxedStrategy<VInst> {
    (
        prop_oneof![Just(1999), Just(2000), Just(2023), Just(2024)],
        prop_oneof![Just(1u32), Just(2u32), Just(6u32), Just(12u32)],
        prop_oneof![Just(1u32), Just(15u32), Just(28u32), Just(29u32), Just(31u32)],
        prop_oneof![Just(0u32), Just(11u32), Just(23u32)],
        prop_oneof![Just(0u32), Just(30u32), Just(59u32)],
        prop_oneof![Just(0u32), Just(30u32), Just(59u32)],
        prop_oneof![Just(0u32), Just(1u32), Just(500u32), Just(999u32)],
    )
        .prop_map(|(y, mo, d, h, mi, s, ms)| VInst { y, mo, d, h, mi, s, ms })
        .boxed()
}

/// advance steps in milliseconds
pub fn advance_ms_strat() -> BoxedStrategy<i64> {
    prop_oneof![
        2 => Just(0i64),
        3 => Just(1i64),
        3 => Just(999i64),
        4 => Just(1_000i64),
        2 => Just(1_001i64),
        2 => Just(59_000i64),
        3 => Just(60_000i64),
        3 => Just(3_600_000i64),
        3 => Just(86_400_000i64),
        1 => Just(28 * 86_400_000i64),
        1 => Just(29 * 86_400_000i64),
        1 => Just(30 * 86_400_000i64),
        1 => Just(31 * 86_400_000i64),
        1 => Just(365 * 86_400_000i64),
        1 => Just(366 * 86_400_000i64),
        2 => (1i64..5_000),
        1 => (1i64..400_000_000),
    ]
    .boxed()
}

/// period identifier of a local instant for the given unit (0=second,1=minute,2=hour,3=day)
pub fn period(ns: i64, unit: crate::fscn::AgeU) -> (i32, u32, u32, u32, u32, u32) {
    use crate::fscn::AgeU;
    let t = Local.timestamp_nanos(ns);
    match unit {
        AgeU::Day => (t.year(), t.month(), t.day(), 0, 0, 0),
        AgeU::Hour => (t.year(), t.month(), t.day(), t.hour(), 0, 0),
        AgeU::Minute => (t.year(), t.month(), t.day(), t.hour(), t.minute(), 0),
        AgeU::Second => (t.year(), t.month(), t.day(), t.hour(), t.minute(), t.second()),
    }
}

// ---- time zone of this process (must be fixed before chrono is used for the first time) ----

// DST-free zones only (a repeated local hour would make "later hour" ambiguous in C09 itself)
pub const TZS: &[&str] = &[
    "UTC",
    "Asia/Kolkata",
    "Pacific/Marquesas",
    "Asia/Kathmandu",
    "America/Phoenix",
    "Pacific/Kiritimati",
];

static TZ_NAME: OnceLock<String> = OnceLock::new();

pub fn apply_tz(name: &str) {
    if TZ_NAME.set(name.to_string()).is_ok() {
        std::env::set_var("TZ", name);
    }
}
pub fn tz_name() -> String {
    TZ_NAME.get().cloned().unwrap_or_else(|| {
        std::env::var("TZ").unwrap_or_else(|_| "UTC".to_string())
    })
}
