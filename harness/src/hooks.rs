//! Harness side of flexi_logger's `verif_hooks`: virtual clock, creation-time table, and the
//! behaviours at named points (trace / kill / fault / noise / park).
use chrono::{DateTime, Local, TimeZone};
use flexi_logger::verif_hooks::{self, Handler};
use std::collections::{HashMap, HashSet};
use std::os::unix::fs::MetadataExt;
use std::path::{Path, PathBuf};
use std::sync::atomic::{AtomicI64, AtomicU64, AtomicU8, Ordering};
use std::sync::{Arc, Condvar, Mutex, OnceLock};

const UNSET: i64 = i64::MIN;

pub const MODE_OFF: u8 = 0;
pub const MODE_TRACE: u8 = 1;
pub const MODE_KILL: u8 = 2;
pub const MODE_FAULT: u8 = 3;
pub const MODE_NOISE: u8 = 4;
pub const MODE_PARK: u8 = 5;

#[derive(Default)]
pub struct PointState {
    pub counts: HashMap<&'static str, u64>,
    pub trace: Vec<(&'static str, u64, Option<PathBuf>)>,
    pub kill: Option<(String, u64)>,
    /// (point name, occurrence) -> error kind
    pub faults: HashMap<(String, u64), std::io::ErrorKind>,
    pub faults_hit: Vec<(String, u64)>,
    /// every hit of the point "write" whose path contains this text fails ("device full")
    pub fault_write_path: Option<String>,
    /// (fault mode) a thread that hits one of these points waits until the name is removed
    pub hold_points: HashSet<String>,
    pub noise_seed: u64,
    pub noise_points: HashSet<String>,
}

/// Scheduler state for park mode (C12): controlled threads register themselves; at every point
/// they wait until the scheduler grants them one step.
#[derive(Default)]
pub struct ParkState {
    /// thread-id -> (point name at which it is parked)
    pub parked: HashMap<u64, &'static str>,
    /// threads allowed to pass their current point
    pub granted: HashSet<u64>,
    /// controlled thread ids
    pub controlled: HashSet<u64>,
    /// sequence of (thread, point) passages in execution order
    pub log: Vec<(u64, &'static str)>,
    /// a thread the harness did not start (flexi_logger's specfile watcher) that arrives at
    /// "spec.enter" is taken under control with this id, for one call
    pub adopt: Option<u64>,
}

pub struct H {
    vnow_ns: AtomicI64,
    tick_ns: AtomicI64,
    births: Mutex<HashMap<(u64, u64), i64>>,
    pub mode: AtomicU8,
    pub points: Mutex<PointState>,
    pub park: Mutex<ParkState>,
    pub park_cv: Condvar,
    pub readings: AtomicU64,
}

thread_local! {
    pub static PARK_ID: std::cell::Cell<u64> = const { std::cell::Cell::new(0) };
}

pub fn h() -> &'static Arc<H> {
    static HH: OnceLock<Arc<H>> = OnceLock::new();
    HH.get_or_init(|| {
        Arc::new(H {
            vnow_ns: AtomicI64::new(UNSET),
            tick_ns: AtomicI64::new(0),
            births: Mutex::new(HashMap::new()),
            mode: AtomicU8::new(MODE_OFF),
            points: Mutex::new(PointState::default()),
            park: Mutex::new(ParkState::default()),
            park_cv: Condvar::new(),
            readings: AtomicU64::new(0),
        })
    })
}

/// Installs the handler (idempotent).
pub fn install() {
    let hh: Arc<dyn Handler> = h().clone();
    verif_hooks::set_handler(Some(hh));
}

pub fn ns_to_local(ns: i64) -> DateTime<Local> {
    Local.timestamp_nanos(ns)
}

fn key(path: &Path) -> Option<(u64, u64)> {
    std::fs::metadata(path).ok().map(|m| (m.dev(), m.ino()))
}

impl H {
    // ---- clock -------------------------------------------------------------------------
    pub fn set_time(&self, ns: Option<i64>) {
        self.vnow_ns.store(ns.unwrap_or(UNSET), Ordering::SeqCst);
    }
    pub fn time(&self) -> Option<i64> {
        let v = self.vnow_ns.load(Ordering::SeqCst);
        if v == UNSET {
            None
        } else {
            Some(v)
        }
    }
    pub fn advance(&self, delta_ns: i64) {
        if self.time().is_some() {
            self.vnow_ns.fetch_add(delta_ns, Ordering::SeqCst);
        }
    }
    /// Every reading of the virtual clock advances it by this amount (C20: one timestamp).
    pub fn set_tick(&self, ns: i64) {
        self.tick_ns.store(ns, Ordering::SeqCst);
    }
    pub fn register_birth(&self, path: &Path, ns: i64) {
        if let Some(k) = key(path) {
            self.births.lock().unwrap().insert(k, ns);
        }
    }
    pub fn birth_of(&self, path: &Path) -> Option<i64> {
        key(path).and_then(|k| self.births.lock().unwrap().get(&k).copied())
    }
    pub fn reset_births(&self) {
        self.births.lock().unwrap().clear();
    }

    // ---- points ------------------------------------------------------------------------
    pub fn set_mode(&self, mode: u8) {
        self.mode.store(mode, Ordering::SeqCst);
    }
    pub fn reset_points(&self) {
        self.set_mode(MODE_OFF);
        let mut p = self.points.lock().unwrap_or_else(|p| p.into_inner());
        *p = PointState::default();
        let mut pk = self.park.lock().unwrap_or_else(|p| p.into_inner());
        *pk = ParkState::default();
    }
    pub fn reset_all(&self) {
        self.reset_points();
        self.set_time(None);
        self.set_tick(0);
        self.reset_births();
    }
    pub fn take_trace(&self) -> Vec<(&'static str, u64, Option<PathBuf>)> {
        std::mem::take(&mut self.points.lock().unwrap().trace)
    }
}

impl Handler for H {
    fn now(&self) -> Option<DateTime<Local>> {
        let v = self.vnow_ns.load(Ordering::SeqCst);
        if v == UNSET {
            return None;
        }
        self.readings.fetch_add(1, Ordering::Relaxed);
        let tick = self.tick_ns.load(Ordering::Relaxed);
        let v = if tick != 0 {
            self.vnow_ns.fetch_add(tick, Ordering::SeqCst)
        } else {
            v
        };
        Some(ns_to_local(v))
    }

    fn creation_time(&self, path: &Path) -> Option<DateTime<Local>> {
        let now = self.time()?;
        // a file that does not exist: the real chain (metadata fails, fall back to the current
        // time) would give the virtual "now" as well - unless the file appears in between (a second
        // thread or the harness creates it), and then it would report a REAL creation time
        let Some(k) = key(path) else {
            return Some(ns_to_local(now));
        };
        let mut births = self.births.lock().unwrap();
        let ns = *births.entry(k).or_insert(now);
        Some(ns_to_local(ns))
    }

    fn point(&self, name: &'static str, path: Option<&Path>) -> std::io::Result<()> {
        // creation-time table: a file that flexi_logger has just opened and that is not yet
        // known was created by this open, i.e. "now" in virtual time
        if name == "open.post" {
            if let (Some(now), Some(p)) = (self.time(), path) {
                if let Some(k) = key(p) {
                    self.births.lock().unwrap().entry(k).or_insert(now);
                }
            }
        }
        let mode = self.mode.load(Ordering::SeqCst);
        if mode == MODE_OFF {
            return Ok(());
        }
        if mode == MODE_PARK {
            return self.park_point(name);
        }
        let mut ps = self.points.lock().unwrap_or_else(|p| p.into_inner());
        let c = ps.counts.entry(name).or_insert(0);
        let occ = *c;
        *c += 1;
        match mode {
            MODE_TRACE => {
                ps.trace.push((name, occ, path.map(Path::to_path_buf)));
                Ok(())
            }
            MODE_KILL => {
                if let Some((ref kn, k)) = ps.kill {
                    if kn == name && k == occ {
                        // no destructors, no flush: like an external SIGKILL
                        unsafe {
                            libc::kill(libc::getpid(), libc::SIGKILL);
                        }
                        loop {
                            std::thread::sleep(std::time::Duration::from_secs(1));
                        }
                    }
                }
                Ok(())
            }
            MODE_FAULT => {
                while ps.hold_points.contains(name) {
                    drop(ps);
                    std::thread::sleep(std::time::Duration::from_micros(500));
                    ps = self.points.lock().unwrap_or_else(|p| p.into_inner());
                }
                let k = (name.to_string(), occ);
                if name == "write" {
                    if let (Some(sub), Some(p)) = (ps.fault_write_path.as_deref(), path) {
                        if p.to_string_lossy().contains(sub) {
                            ps.faults_hit.push(k);
                            return Err(std::io::Error::new(std::io::ErrorKind::Other, "injected fault (device full)"));
                        }
                    }
                }
                if let Some(kind) = ps.faults.get(&k).copied() {
                    ps.faults_hit.push(k);
                    ps.trace.push((name, occ, path.map(Path::to_path_buf)));
                    Err(std::io::Error::new(kind, "injected fault"))
                } else {
                    Ok(())
                }
            }
            MODE_NOISE => {
                if ps.noise_points.is_empty() || ps.noise_points.contains(name) {
                    let r = crate::util::mix(ps.noise_seed, crate::util::mix(occ, crate::util::fnv(name.as_bytes())));
                    drop(ps);
                    match r % 8 {
                        0 | 1 | 2 => std::thread::yield_now(),
                        3 => std::thread::sleep(std::time::Duration::from_micros(50 + (r >> 8) % 200)),
                        _ => {}
                    }
                }
                Ok(())
            }
            _ => Ok(()),
        }
    }
}

/// ids from here on are adopted threads (see ParkState::adopt)
pub const ADOPTED_BASE: u64 = 100;

impl H {
    fn park_point(&self, name: &'static str) -> std::io::Result<()> {
        let mut id = PARK_ID.with(std::cell::Cell::get);
        let mut pk = self.park.lock().unwrap_or_else(|p| p.into_inner());
        if id == 0 {
            match (name, pk.adopt) {
                ("spec.enter", Some(a)) => {
                    pk.adopt = None;
                    PARK_ID.with(|c| c.set(a));
                    id = a;
                }
                _ => return Ok(()),
            }
        }
        if !pk.controlled.contains(&id) {
            return Ok(());
        }
        pk.parked.insert(id, name);
        self.park_cv.notify_all();
        loop {
            if pk.granted.remove(&id) {
                pk.parked.remove(&id);
                pk.log.push((id, name));
                if name == "spec.exit" && id >= ADOPTED_BASE {
                    // the adopted thread's call is over: nobody else would sign it off
                    pk.controlled.remove(&id);
                    PARK_ID.with(|c| c.set(0));
                }
                self.park_cv.notify_all();
                return Ok(());
            }
            pk = self.park_cv.wait(pk).unwrap_or_else(|p| p.into_inner());
        }
    }
}
