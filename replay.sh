#!/bin/sh
# usage: replay.sh <property id> <replay file>
# JSON replay files (regress/, replays/<ID>/*.json): flv replay. Inputs saved by a byte-level
# fuzz target (replays/<ID>/fuzzbytes-<target>-*): the target binary on that input.
# Exit: 1 if the failure reproduces, 0 if not, 2 on infrastructure problems.
ID="$1"; FILE="$2"
ROOT="$(cd "$(dirname "$0")" && pwd)"
cd "$ROOT/harness" || exit 2
CARGO_NET_OFFLINE=true cargo build --release --offline >"$ROOT/harness/build.log" 2>&1 || { echo "BUILD FAILED"; exit 2; }
case "$(basename "$FILE")" in
  fuzzbytes-*)
    T="$(basename "$FILE" | sed 's/^fuzzbytes-\([a-z_]*\)-.*/\1/')"
    CARGO_NET_OFFLINE=true cargo +nightly fuzz build -s none --fuzz-dir "$ROOT/fuzz" "$T" >"$ROOT/harness/fuzzbuild.log" 2>&1 || { echo "FUZZ BUILD FAILED"; exit 2; }
    if FLV_FUZZ_PROP="$ID" FLV_VERIF_ROOT="$ROOT" "$ROOT/fuzz/target/x86_64-unknown-linux-gnu/release/$T" "$FILE"; then
      echo "not reproduced"; exit 0
    else
      echo "VIOLATION property=$ID replay=$FILE"; exit 1
    fi ;;
  *)
    FLV="$ROOT/harness/target/release/flv"
    if [ "$ID" = "C12" ] || [ "$ID" = "C04" ] || [ "$ID" = "C10" ]; then
      CARGO_NET_OFFLINE=true cargo build --release --offline --features watcher --target-dir "$ROOT/harness/target-w" >"$ROOT/harness/build-w.log" 2>&1 || { echo "BUILD FAILED"; exit 2; }
      FLV="$ROOT/harness/target-w/release/flv"
    fi
    cd "$ROOT" && exec "$FLV" replay "$ID" "$FILE" ;;
esac
