#!/bin/sh
# usage: tools/seeded.sh <seeded dir name> <check id>...   applies /verif/seeded/<name>/patch.diff to /repo,
# runs the given quick checks, and always restores /repo afterwards.
NAME="$1"; shift
PATCH="/verif/seeded/$NAME/patch.diff"
[ -f "$PATCH" ] || { echo "no $PATCH"; exit 2; }
git -C /repo diff --quiet || { echo "/repo has uncommitted changes"; exit 2; }
git -C /repo apply "$PATCH" || { echo "patch does not apply"; exit 2; }
for ID in "$@"; do
  /verif/check.sh "$ID" "${TIER:-quick}" | grep -v -e '^  classes' -e '^KNOWN-FINDING' | cut -c1-400
  echo "== $NAME / $ID: exit $?"
done
git -C /repo checkout -- . ; git -C /repo status --short
# rebuild the harness from the restored tree, so that no stale binary with the change is left behind
(cd /verif/harness && CARGO_NET_OFFLINE=true cargo build --release --offline >/dev/null 2>&1)
