#!/bin/sh
# usage: confirm_seeded.sh <worktree> "<demo command>"   (worktree has the change applied and seeded/patch.diff)
WT="$1"; DEMO="$2"
cd "$WT" || exit 2
echo "--- build (all features) with change"; cargo build --offline --features "async compress json kv buffer_writer syslog_writer specfile_without_notification verif_hooks" 2>&1 | tail -1
echo "--- demo WITH change (must fail)"; sh -c "$DEMO" 2>&1 | grep -E "^test result|panicked|FAILED|error\[" | head -5
echo "--- pinned suite WITH change (must pass; demo file moved away)"
mkdir -p /tmp/demo_hold; for f in tests/seeded_demo*.rs; do [ -f "$f" ] && mv "$f" /tmp/demo_hold/; done
cargo nextest run --workspace --no-fail-fast --tool-config-file pb:/w/lib/nextest.toml --profile pb --test-threads 8 --offline 2>&1 | grep -E "Summary|FAIL" | head -5
mv /tmp/demo_hold/* tests/ 2>/dev/null
echo "--- demo WITHOUT change (must pass)"; git apply -R seeded/patch.diff && sh -c "$DEMO" 2>&1 | grep -E "^test result|panicked|FAILED|error\[" | head -5; git apply seeded/patch.diff
echo "--- done; change re-applied:"; git status --short | head -5
