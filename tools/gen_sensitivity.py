#!/usr/bin/env python3
"""Rewrites the table of seeded changes in DESIGN.md (between the SEEDED-TABLE markers) from
/verif/seeded/*/meta.json."""
import glob, json, os, re
root = os.path.dirname(os.path.dirname(os.path.abspath(__file__)))
rows = []
for m in sorted(glob.glob(os.path.join(root, "seeded", "*", "meta.json"))):
    d = json.load(open(m))
    esc = lambda s: str(s).replace("|", "\\|").replace("\n", " ")
    rows.append("| `%s` | %s | %s | %s | %s |" % (d["name"], d["breaks_property"], esc(d["notes"]), esc(d["needs_to_manifest"]),
                                                  esc(" / ".join(d.get("checks_run", [])) or "-")))
table = "| seeded change | property | the change | needs to manifest | result |\n|---|---|---|---|---|\n" + "\n".join(rows) + "\n"
p = os.path.join(root, "DESIGN.md")
s = open(p).read()
b, e = "<!-- SEEDED-TABLE-BEGIN -->\n", "<!-- SEEDED-TABLE-END -->\n"
if b in s:
    s = s[:s.index(b) + len(b)] + table + s[s.index(e):]
else:
    # first use: replace the existing table
    start = s.index("| seeded change | property |")
    end = s.index("\nWhat the misses taught")
    s = s[:start] + b + table + e + s[end:]
open(p, "w").write(s)
print(len(rows), "rows")
