#!/usr/bin/env python3
"""Coverage-guided stage of a thorough check (libFuzzer via cargo-fuzz).

usage: fuzz_stage.py <property id> [--scale F] [--jobs N]

Targets (in /verif/fuzz/fuzz_targets):
  prop_case     the property's own proptest strategy driven by the fuzzer's bytes (pass-through
                RNG), judged by the property's own oracle; failures are ordinary JSON replay files
  spec_parse    bytes -> LogSpecification::parse, C17's oracle inside the target
  target_route  bytes -> (target string, level, module, message) -> routing model (C10, C13)

Every job is a fixed amount of work (-runs=N, -seed derived from VERIF_SEED, fresh corpus
directory, seeds from /verif/fuzz/seeds/<target> and earlier crash inputs from
/verif/fuzz/regress/<target>). A crash is verified in a fresh process before it is reported:
  prop_case   -> flv replay <ID> <json>   (exit 1 = reproduced)
  byte target -> the target binary on the saved input (non-zero exit = reproduced)
Exit: 0 held, 1 violation (line "VIOLATION property=<id> replay=<path>"), 2 inconclusive.
The statistics are merged into /verif/evidence/<ID>.json (which flv check has just written).
"""
import concurrent.futures, json, os, re, shutil, subprocess, sys, threading, time

ROOT = os.path.dirname(os.path.dirname(os.path.abspath(__file__)))
FUZZ = os.path.join(ROOT, "fuzz")
BIN = os.path.join(FUZZ, "target", "x86_64-unknown-linux-gnu", "release")
TZS = ["UTC", "Asia/Kolkata", "Pacific/Marquesas", "Asia/Kathmandu", "America/Phoenix", "Pacific/Kiritimati"]

# property -> list of (target, runs per job at scale 1, max_len)
PLAN = {
    "C01": [("prop_case", 25000, 2048)],
    "C02": [("prop_case", 80000, 2048)],
    "C05": [("prop_case", 8000, 2048)],
    "C06": [("prop_case", 12000, 2048)],
    "C07": [("prop_case", 8000, 2048)],
    "C08": [("prop_case", 12000, 2048)],
    "C09": [("prop_case", 25000, 2048)],
    "C10": [("prop_case", 4000, 2048), ("target_route", 400000, 600)],
    "C13": [("target_route", 400000, 600)],
    "C14": [("prop_case", 10000, 2048)],
    "C15": [("prop_case", 2400, 2048)],
    "C16": [("prop_case", 25000, 2048)],
    "C17": [("prop_case", 50000, 2048), ("spec_parse", 40000, 96)],
    "C18": [("prop_case", 80000, 2048)],
    "C19": [("prop_case", 2000, 2048)],
}


# new inputs per short-lived prop_case process (loggers with a flush interval leave a flusher thread
# behind that wakes up every interval for the rest of the process: C15 and C10 build many of them)
PER_ROUND = {"C15": 60, "C10": 40, "C01": 200, "C06": 200, "C07": 200}


def build():
    env = dict(os.environ, CARGO_NET_OFFLINE="true")
    # flv (used to verify failures in a fresh process) must come from the same tree
    r = subprocess.run(["cargo", "build", "--release", "--offline"], cwd=os.path.join(ROOT, "harness"), env=env,
                       stdout=subprocess.PIPE, stderr=subprocess.STDOUT, text=True)
    if r.returncode != 0:
        print("BUILD FAILED")
        print(r.stdout[-3000:])
        return False
    r = subprocess.run(
        ["cargo", "+nightly", "fuzz", "build", "-s", "none", "--fuzz-dir", FUZZ],
        cwd=os.path.join(ROOT, "harness"), env=env, stdout=subprocess.PIPE, stderr=subprocess.STDOUT, text=True)
    if r.returncode != 0:
        print("FUZZ BUILD FAILED")
        print(r.stdout[-3000:])
        return False
    return True


def parse_stats(text):
    st = {"executions": 0, "distinct_nontrivial": None, "cov": 0, "ft": 0, "corpus_units": 0, "samples": []}
    for line in text.splitlines():
        m = re.match(r"#(\d+)\s+DONE\s+cov: (\d+) ft: (\d+) corp: (\d+)/", line)
        if m:
            st["executions"] = int(m.group(1)); st["cov"] = int(m.group(2)); st["ft"] = int(m.group(3)); st["corpus_units"] = int(m.group(4))
        m = re.match(r"FUZZ-STATS executions=(\d+) distinct_nontrivial=(\d+)", line)
        if m:
            st["fuzz_stats_executions"] = int(m.group(1)); st["distinct_nontrivial"] = int(m.group(2))
        if line.startswith("FUZZ-SAMPLE "):
            try:
                st["samples"].append(json.loads(line[len("FUZZ-SAMPLE "):]))
            except Exception:
                pass
    if st["executions"] == 0:
        # a job that stopped early: last progress line
        for line in reversed(text.splitlines()):
            m = re.match(r"#(\d+)\s+\w+\s+cov: (\d+) ft: (\d+) corp: (\d+)/", line)
            if m:
                st["executions"] = int(m.group(1)); st["cov"] = int(m.group(2)); st["ft"] = int(m.group(3)); st["corpus_units"] = int(m.group(4))
                break
    return st


def main():
    pid = sys.argv[1]
    scale = 1.0
    jobs = min(8, os.cpu_count() or 1)
    a = sys.argv[2:]
    while a:
        if a[0] == "--scale":
            scale = float(a[1]); a = a[2:]
        elif a[0] == "--jobs":
            jobs = int(a[1]); a = a[2:]
        else:
            a = a[1:]
    if pid not in PLAN:
        return 0
    seed = int(os.environ.get("VERIF_SEED", "0") or 0)
    t0 = time.time()
    if not build():
        return 2
    flv = os.path.join(ROOT, "harness", "target", "release", "flv")
    replays = os.path.join(ROOT, "replays", pid)
    os.makedirs(replays, exist_ok=True)
    results = []
    violations = []
    inconclusive = []
    for (target, runs, max_len) in PLAN[pid]:
        runs = max(100, int(runs * scale))
        exe = os.path.join(BIN, target)
        seeds = os.path.join(FUZZ, "seeds", target)
        regress = os.path.join(FUZZ, "regress", target if target != "prop_case" else "prop_case-" + pid)
        base = os.path.join(FUZZ, "corpus-run", pid, target)
        shutil.rmtree(base, ignore_errors=True)
        # prop_case: flexi_logger's flusher and cleanup threads never end, so a job is a sequence
        # of short-lived processes over the same corpus directory (as the proptest workers are
        # recycled every chunk); the byte-level targets have no such threads and run in one go
        per_round = PER_ROUND.get(pid, 300) if target == "prop_case" else runs
        if target == "prop_case":
            # every round re-reads the corpus: more than ~20 rounds per job cost more than they find
            runs = min(runs, 20 * per_round)
        agg = {"target": target, "jobs": jobs, "new_inputs_per_job": runs, "max_len": max_len, "executions": 0,
               "distinct_nontrivial": 0, "corpus_units": 0, "cov_max": 0, "ft_max": 0, "samples": []}
        lock = threading.Lock()
        nt_hashes = set()

        def job(j):
            corp = os.path.join(base, str(j))
            os.makedirs(corp)
            ntf = os.path.join(base, "nt%d.txt" % j)
            env = dict(os.environ, FLV_FUZZ_PROP=pid, FLV_FUZZ_TZ=TZS[j % len(TZS)], FLV_VERIF_ROOT=ROOT,
                       TZ=TZS[j % len(TZS)], FLV_FUZZ_NT_FILE=ntf)
            extra = [d for d in (seeds, regress) if os.path.isdir(d)]
            done = 0
            rnd = 0
            last = None
            while done < runs:
                n = min(per_round, runs - done)
                preload = len(os.listdir(corp)) + sum(len(os.listdir(d)) for d in extra)
                s = (seed * 1000003 + j * 7919 + rnd * 104729 + 1) % 2147483647 or 1
                cmd = [exe, "-runs=%d" % (preload + n), "-seed=%d" % s, "-max_len=%d" % max_len, "-len_control=0",
                       "-timeout=300", "-rss_limit_mb=6000", "-print_final_stats=0",
                       "-artifact_prefix=%s/fuzzbytes-%s-" % (replays, target), corp] + extra
                logp = os.path.join(base, "job%d.log" % j)
                with open(logp, "w") as log:
                    p = subprocess.Popen(cmd, env=env, stdout=log, stderr=subprocess.STDOUT)
                    code = p.wait()
                shutil.rmtree("/dev/shm/flv-%d" % p.pid, ignore_errors=True)
                text = open(logp, errors="replace").read()
                st = parse_stats(text)
                with lock:
                    agg["executions"] += st["executions"]
                    agg["cov_max"] = max(agg["cov_max"], st["cov"]); agg["ft_max"] = max(agg["ft_max"], st["ft"])
                    if len(agg["samples"]) < 3 and rnd == 1:
                        agg["samples"] += st["samples"][:1]
                last = st
                done += n
                rnd += 1
                if code != 0:
                    return (j, code, text, last)
            return (j, 0, "", last)

        with concurrent.futures.ThreadPoolExecutor(max_workers=jobs) as ex:
            outs = list(ex.map(job, range(jobs)))
        for (j, code, text, st) in outs:
            if st:
                agg["corpus_units"] += st["corpus_units"]
            ntf = os.path.join(base, "nt%d.txt" % j)
            if os.path.exists(ntf):
                for line in open(ntf):
                    nt_hashes.add(line.strip())
            if code == 0:
                continue
            # something stopped the job: find out what
            m = re.search(r"FUZZ-FAILURE property=(\S+) replay=(\S+) alt=(\S+) sig=(.*)", text)
            art = re.search(r"Test unit written to (\S+)", text)
            if m:
                done = False
                for f in (m.group(2), m.group(3)):
                    r = subprocess.run([flv, "replay", pid, f], stdout=subprocess.PIPE, stderr=subprocess.STDOUT, text=True,
                                       env=dict(os.environ, FLV_VERIF_ROOT=ROOT))
                    if r.returncode == 1:
                        violations.append((f, m.group(4)))
                        done = True
                        break
                if not done:
                    inconclusive.append("failure %r found by %s job %d did not reproduce in a fresh process (%s)" % (m.group(4), target, j, m.group(2)))
            elif art and ("timeout-" in art.group(1) or "oom-" in art.group(1) or "leak-" in art.group(1)):
                inconclusive.append("%s job %d stopped by libFuzzer's %s guard (%s)" % (target, j, os.path.basename(art.group(1)).split("-")[2], art.group(1)))
            elif art and target != "prop_case":
                r = subprocess.run([exe, art.group(1)], stdout=subprocess.PIPE, stderr=subprocess.STDOUT, text=True,
                                   env=dict(os.environ, FLV_FUZZ_PROP=pid, FLV_FUZZ_TZ=TZS[j % len(TZS)], FLV_VERIF_ROOT=ROOT))
                if r.returncode != 0:
                    msg = ""
                    mm = re.search(r"panicked at [^\n]*\n([^\n]*)", r.stdout)
                    if mm:
                        msg = mm.group(1)[:300]
                    violations.append((art.group(1), "fuzz-target-oracle: " + msg))
                else:
                    inconclusive.append("crash of %s job %d did not reproduce (%s)" % (target, j, art.group(1)))
            else:
                tail = "\n".join(text.splitlines()[-15:])
                inconclusive.append("%s job %d ended with code %d without a recognisable report:\n%s" % (target, j, code, tail))
        agg["distinct_nontrivial"] = len(nt_hashes)
        results.append(agg)
        # distinct count for byte-level targets: coverage-increasing inputs kept by libFuzzer
        if target != "prop_case":
            agg["distinct_nontrivial"] = agg["corpus_units"]
            agg["rule"] = "byte-level target: distinct = inputs libFuzzer kept because they reached new coverage features (summed over jobs)"
            smp = []
            d0 = os.path.join(base, "0")
            for n in sorted(os.listdir(d0))[:3]:
                smp.append(repr(open(os.path.join(d0, n), "rb").read()[:80]))
            agg["samples"] = smp
        else:
            agg["rule"] = "case = the property's own strategy drawn from the fuzzer's bytes; non-trivial by the property's rule, distinct by case hash over all jobs; executions include the corpus re-read at the start of each short-lived process"
        if not violations and not inconclusive:
            shutil.rmtree(base, ignore_errors=True)
    wall = time.time() - t0
    # merge into the evidence file
    evp = os.path.join(ROOT, "evidence", pid + ".json")
    try:
        ev = json.load(open(evp))
        ev["coverage"]["coverage_guided_stage"] = results
        ev["coverage"]["coverage_guided_executions"] = sum(r["executions"] for r in results)
        ev["coverage"]["coverage_guided_distinct_nontrivial"] = sum(r["distinct_nontrivial"] for r in results)
        ev["wall_s"] = round(ev.get("wall_s", 0) + wall, 3)
        ev["violations"] = ev.get("violations", 0) + len(violations)
        ev.setdefault("assumptions", [])
        note = "coverage-guided stage: libFuzzer campaigns are pinned by -seed/-runs only approximately; a saved failing case is the reproducible unit"
        if note not in ev["assumptions"]:
            ev["assumptions"].append(note)
        json.dump(ev, open(evp, "w"), indent=1)
    except Exception as e:  # evidence of the proptest stage missing: leave it to the caller
        print("note: evidence file not updated:", e)
    print("%s thorough, coverage-guided stage: %s wall=%.1fs" % (
        pid, "; ".join("%s executions=%d distinct_nontrivial=%d corpus=%d cov=%d" % (
            r["target"], r["executions"], r["distinct_nontrivial"], r["corpus_units"], r["cov_max"]) for r in results), wall))
    seen = set()
    for (f, sig) in violations:
        if f in seen:
            continue
        seen.add(f)
        print("VIOLATION property=%s replay=%s" % (pid, f))
        print("  sig=%s" % sig)
    for i in inconclusive:
        print("INCONCLUSIVE: " + i)
    if violations:
        return 1
    if inconclusive:
        return 2
    return 0


if __name__ == "__main__":
    sys.exit(main())
