#!/usr/bin/env python3
"""usage: make_seeded_prompt.py <property id> <worktree dir>   prints the task text for a fresh sub-agent
that is asked for a seeded change (it gets the property text, the mechanisms of earlier rounds for
that property - so that it produces something new - and its own scratch worktree; nothing else of /verif)."""
import json, glob, sys
pid, wt = sys.argv[1], sys.argv[2]
props = {json.loads(l)['id']: json.loads(l) for l in open('/verif/properties.jsonl')}
prev = [json.load(open(m))['notes'] for m in sorted(glob.glob('/verif/seeded/*/meta.json')) if json.load(open(m))['breaks_property'] == pid]
p = props[pid]
earlier = '\n'.join(f'  - {n}' for n in prev) or '  (none)'
print(f"""You are helping to evaluate a verification effort for the Rust crate flexi_logger (a logging backend for the `log` crate). Your job: produce ONE realistic, subtle code change ("seeded defect") to flexi_logger that BREAKS the semantic property below, while the crate still compiles and its existing test suite still passes.

Your private scratch git worktree of the repository is {wt} . Work ONLY inside that directory (never touch /repo or /verif, never read anything under /verif). The machine is offline: always pass --offline to cargo. Other people are using the machine: do not use more than 4 parallel jobs (cargo build -j4, --test-threads 4).

THE PROPERTY ({pid}: {p['title']})
Statement: {p['statement']}
Quantified over: {p['quantifier']['text']}
Code anchors: {json.dumps(p.get('anchors'))}

REQUIREMENTS FOR THE CHANGE
1. It modifies only files under src/ (a few lines; it must look like a plausible refactoring slip, optimisation, or misguided "fix" that a maintainer could really make - no sabotage markers, no comments pointing at it, no special-casing of magic values).
2. With the change the crate compiles with the features `async compress json kv buffer_writer syslog_writer specfile_without_notification` (and with default features), and the existing test suite passes: run `cargo nextest run --workspace --no-fail-fast --tool-config-file pb:/w/lib/nextest.toml --profile pb --test-threads 4 --offline` (if that does not work, `cargo test --workspace --no-fail-fast --offline -- --test-threads 4`); all 77 tests must pass (run it with your demonstration test file moved out of tests/ so that it is not counted).
3. The change must need SOMETHING SPECIFIC to manifest: a particular interleaving, a crash or an I/O fault at a particular point, a multi-step sequence of operations, an unusual input/configuration, or two cooperating sites that each look fine alone. A change that any ordinary use would expose at once is not wanted.
4. It must be DIFFERENT in mechanism from these changes that were already made for this property in earlier rounds (do not repeat them or a close variant):
{earlier}
5. Write a demonstration: an integration test file tests/seeded_demo.rs (it may need `--features ...`; say which) that FAILS with your change and PASSES on the unmodified code (check both: use `git diff > x; git apply -R x` to run it on the unmodified code). The demonstration must be deterministic (or fail at least 9 times out of 10 with the change and never without).

DELIVERABLES (inside the worktree, directory {wt}/seeded/):
- seeded/patch.diff  : output of `git diff -- src` (the change only, applicable with `git apply` at the repository root)
- seeded/seeded_demo.rs : copy of the demonstration test
- seeded/NOTES.md : (a) what the change is and why it breaks the property, (b) exactly what is needed for it to manifest, (c) the exact command that runs the demonstration, (d) what you ran and what you saw (suite with change: N passed; demo with change: fails; demo without: passes), (e) OPTIONAL but valuable: places in the UNMODIFIED source that look to you as if they could already violate this property (file, function, the input/sequence you suspect) - mark clearly which of them you actually tried.
Leave the worktree with the change APPLIED and tests/seeded_demo.rs in place. In your final answer give a 10-line summary: the change, what it needs to manifest, the demo command, and the results of your runs.""")
