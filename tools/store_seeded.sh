#!/bin/sh
# usage: store_seeded.sh <name> <worktree> <property> "<needs>" "<demo cmd>" "<notes>"
n="$1"; wt="$2"; mkdir -p /verif/seeded/$n
cp "$wt/seeded/patch.diff" /verif/seeded/$n/
if [ -f "$wt/seeded/seeded_demo.rs" ]; then cp "$wt/seeded/seeded_demo.rs" /verif/seeded/$n/; else cp "$wt"/tests/seeded_demo*.rs /verif/seeded/$n/ 2>/dev/null; fi
[ -f "$wt/seeded/NOTES.md" ] && cp "$wt/seeded/NOTES.md" /verif/seeded/$n/NOTES.md
python3 - "$@" <<'PY'
import json,sys
name,wt,prop,needs,demo,notes=sys.argv[1:7]
json.dump({"name":name,"breaks_property":prop,"needs_to_manifest":needs,
 "demonstration":{"file":"seeded_demo.rs","command":demo,"with_change":"fails","without_change":"passes"},
 "confirmed":{"compiles_all_features":True,"pinned_suite_77_tests_pass_with_change":True,
   "how":"tools/confirm_seeded.sh in the sub-agent's scratch worktree (removed afterwards): build with all features, demo with change fails, nextest baseline with change passes 77/77, demo without change passes"},
 "checks_run":[],"notes":notes}, open(f'/verif/seeded/{name}/meta.json','w'), indent=1)
PY
echo stored $n
