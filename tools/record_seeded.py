#!/usr/bin/env python3
"""usage: record_seeded.py <name> "<check result text>"  appends to meta.json checks_run"""
import json,sys
p=f'/verif/seeded/{sys.argv[1]}/meta.json'
m=json.load(open(p)); m.setdefault('checks_run',[]).append(sys.argv[2]); json.dump(m,open(p,'w'),indent=1)
