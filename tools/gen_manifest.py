#!/usr/bin/env python3
"""Writes /verif/MANIFEST.json from the table below (single source of truth for the interface)."""
import json, os, subprocess

ROOT = os.path.dirname(os.path.dirname(os.path.abspath(__file__)))

# id -> (level, technique, level text, level note, design ref)
CHECKS = {
    "C01": ("exploration",
            "proptest stateful histories + stream round-trip oracle (reference name grammar)",
            "Generated configuration x operation histories (thousands per quick run, 150k thorough) executed against the real logger under a virtual clock; the rotated files in semantic order plus the current file must equal the concatenation of all logged lines. Search, not proof: it shows absence of violations only on the explored cases.",
            "trusts: harness name grammar and semantic file order; tmpfs semantics; verif_hooks virtual clock equals the real clock path (cross-checked by the 10% real-clock cases)",
            "DESIGN.md 4/C01"),
    "C08": ("exploration",
            "proptest histories + reference partition model (model-based testing)",
            "Generated size limits, record-length sequences at the limit boundaries, all write modes incl. async, all namings, append restarts; the ordered list of file contents must equal the partition predicted by an independent model (rotate iff size before the write > N, size seeded from the appended file), plus the corollary 'no record appended to a file already above N' checked directly on the files. Search over thousands of cases, no proof.",
            "trusts the reference partition model (src/model.rs, written from the documentation), the name grammar, tmpfs; restarts of direct-timestamp namings avoided (listed finding under C06) and counted",
            "DESIGN.md 4/C08"),
    "C09": ("exploration",
            "proptest histories under a virtual clock + reference partition model (model-based testing)",
            "Virtual-clock histories with structured instants and advance steps straddling second/minute/hour/day/month/year boundaries, in 6 DST-free time zones; file partition must equal the model (rotate iff local period differs from the period in which the current file was started) and timestamp infixes must equal the instant the content was started. Search, not proof.",
            "trusts the verif_hooks clock redirection (every Local::now() of the file writer and the creation-time lookup), chrono's time-zone conversion, the reference model; async mode and direct-timestamp restarts excluded as stated in the evidence",
            "DESIGN.md 4/C09"),
    "C15": ("exploration",
            "differential testing across write modes (proptest) + enumerated single-byte chunks",
            "The same generated record or raw-chunk sequence is run under Direct, buffered and async modes; ordered file contents must agree with the Direct run and with the partition model, chunk concatenation must equal the input; all 256 single-byte chunk values are enumerated. Search, not proof.",
            "trusts the Direct mode only as the differential reference (also compared with the model); known finding KF-C15-1 is tolerated by exact signature only",
            "DESIGN.md 4/C15"),
}

ALL = ["C%02d" % i for i in range(1, 21)]

def hook_commits():
    try:
        out = subprocess.check_output(["git", "-C", "/repo", "log", "--format=%H %s"], text=True)
    except Exception:
        return []
    return [l.split()[0] for l in out.splitlines() if "verif hooks" in l]

def main():
    checks = []
    for pid in ALL:
        if pid not in CHECKS:
            continue
        level, technique, text, note, ref = CHECKS[pid]
        checks.append({
            "property_id": pid,
            "quick_cmd": f"./check.sh {pid} quick",
            "thorough_cmd": f"./check.sh {pid} thorough",
            "evidence_file": f"/verif/evidence/{pid}.json",
            "replay_cmd_template": f"./harness/target/release/flv replay {pid} {{path}}",
            "engine": "flv",
            "level_claimed": {"category": level, "text": text, "design_ref": ref},
            "level_note": note,
            "technique": technique,
        })
    na = [{"property_id": p, "reason": "check not built yet in this session (planned, see DESIGN.md section 4); no claim is made"}
          for p in ALL if p not in CHECKS]
    m = {
        "version": 1,
        "setup_cmd": "cd /verif/harness && CARGO_NET_OFFLINE=true cargo build --release --offline",
        "hooks": {
            "guard": "cargo feature verif_hooks (flexi_logger)",
            "enable": "the harness crate /verif/harness depends on flexi_logger by path /repo with features [async, compress, json, kv, buffer_writer, syslog_writer, specfile_without_notification, verif_hooks]; check.sh runs `cargo build --release --offline` before every check, so the current working tree of /repo is rebuilt",
            "baseline_off_cmd": "cd /repo && cargo nextest run --workspace --no-fail-fast --tool-config-file pb:/w/lib/nextest.toml --profile pb --test-threads 8 --offline",
            "source_commits": hook_commits(),
            "add_only": True,
        },
        "engines": [
            {"name": "flv", "path": "/verif/harness", "serves_properties": sorted(CHECKS.keys()),
             "kind_free_text": "Rust binary: proptest strategies driven from a TestRunner with fixed seeds, sharded over worker processes; scenario interpreter against the real flexi_logger + reference models; shrinking to JSON replay files; regression replay tier (regress/)"},
        ],
        "checks": checks,
        "not_applicable": na,
        "notes": "VERIF_SEED selects the PRNG stream (default 0). Exit codes: 0 held, 1 violation (VIOLATION line), 2 inconclusive (watchdog / infrastructure). Known findings: /verif/known_findings.txt.",
    }
    with open(os.path.join(ROOT, "MANIFEST.json"), "w") as f:
        json.dump(m, f, indent=1)
    print("wrote MANIFEST.json with", len(checks), "checks;", len(na), "not applicable")

if __name__ == "__main__":
    main()
