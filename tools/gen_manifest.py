#!/usr/bin/env python3
"""Writes /verif/MANIFEST.json from the table below (single source of truth for the interface)."""
import json, os, subprocess

ROOT = os.path.dirname(os.path.dirname(os.path.abspath(__file__)))

# id -> (level, technique, level text, level note, design ref)
CHECKS = {
    "C01": ("exploration",
            "proptest stateful histories + stream round-trip oracle (reference name grammar)",
            "Generated configuration x operation histories (thousands per quick run, 150k thorough) executed against the real logger under a virtual clock; the rotated files in semantic order plus the current file must equal the concatenation of all logged lines. Search, not proof: it shows absence of violations only on the explored cases. Later additions: dotted suffixes/basenames/timestamp formats, builder call order and default timestamp decision (build_variant), [starttime] with an advancing clock.",
            "trusts: harness name grammar and semantic file order; tmpfs semantics; verif_hooks virtual clock equals the real clock path (cross-checked by the 10% real-clock cases)",
            "DESIGN.md 4/C01"),
    "C02": ("exploration",
            "proptest specifications x exhaustive level/target grid against a reference matcher, through the real log macros",
            "Generated specifications (prefix-related names, level words as names, all levels, optional default/regex, built by builder or parser) and per case the full level x target grid logged through the log macros into a switchboard global logger; written set must equal the reference matcher + regex, log::max_level must admit all accepted records and writer ceilings, Log::enabled must equal the matcher. Search over ~1M grid cells per quick run, no proof.",
            "trusts the 15-line reference matcher written from the LogSpecification documentation and the regex crate; custom writers are assumed well-behaved (honour their own ceiling); the brace-with-_Default clause (listed finding KF-C02-1) is evaluated for every 20th case",
            "DESIGN.md 4/C02"),
    "C03": ("exploration",
            "randomised schedule sampling (proptest configurations, barrier-released threads, seed-chosen noise at hook points) with self-checking payloads",
            "2-8 threads log 20-300 self-checking records each into a rotating file (every naming, Direct/Buffered/Async with tiny pools) or into stdout/stderr of a child; scheduling noise at the hook points widens race windows; the output must split into intact lines, every record exactly once, per-thread order without gaps. Sampling of OS schedules (hundreds of configurations per quick run), no enumeration.",
            "the OS scheduler chooses the interleaving inside critical sections; replay repeats a configuration 20 times",
            "DESIGN.md 4/C03"),
    "C04": ("exploration",
            "proptest histories with immediate observation after the terminal call (files, committing custom writer, child process ending with _exit)",
            "Generated histories of writes, flushes, rotations, clone-and-drop of the handle and sleeps in every write mode and output, ended by shutdown(), drop of the last handle or flush(); the output is read immediately after the call returned (the child process _exits) and must hold exactly the records whose log calls had returned, also those logged after a clone of the handle was dropped. Search, not proof; found the clone-drop defect that was repaired. Later additions: two shutdown() calls in flight at once (observation after the first that returns), the last two handle clones dropped concurrently by two threads (60 repetitions per case), loggers built with a specification file (watcher build). Round-5 additions: a second thread that logs while shutdown() runs (records acknowledged before the call), a healthy writer beside a log file on /dev/full (every flush of the file fails). Round 6: a FileLogWriter registered with add_writer (bare shutdown() from the handle) as an output.",
            "timing of flusher/writer threads is sampled, not controlled",
            "DESIGN.md 4/C04"),
    "C05": ("exploration",
            "model-based testing of reconfiguration histories (proptest sequences + (active, stack) model)",
            "Generated sequences of the five reconfiguration operations incl. malformed strings and pops on an empty stack; after every step enabled()/written records/max_level are compared with the model's active specification, and parse results with the reference parser. Search, not proof. Later addition: a failing second Logger::start() as an operation (must leave spec, stack and max level alone).",
            "trusts the reference matcher and the reference parser (src/spec.rs)",
            "DESIGN.md 4/C05"),
    "C10": ("exploration",
            "robustness fuzzing (proptest structured generators for targets, spec strings, hostile file configurations and near-miss directory contents) with panic/hang oracle and a probe record after every step",
            "Generated hostile records, specification strings, file-name configurations and pre-populated directories (near misses derived from the logger's own pattern, invalid UTF-8, malformed .restart- extensions, sub-directories, dangling symlinks) under histories incl. restarts and external removal of the directory; any panic in any thread, any watchdog hit, or a probe record that panics afterwards is a violation. Search, not proof; six panics found this way were repaired in /repo. Later additions: long multi-byte target names at every byte offset, numbers at the integer limits in pre-populated file names, degenerate async capacities, 150 live specfile watchers (watcher build), dotted suffixes/basenames/timestamp formats.",
            "documented panics are not provoked; hang = case exceeding the 30 s watchdog reproducibly in a fresh process",
            "DESIGN.md 4/C10"),
    "C11": ("fault_enumeration",
            "crash-point enumeration: child processes killed with SIGKILL at traced hook points of proptest-generated histories, acknowledgement file vs. directory contents, restart in a second child",
            "For every generated history the hits of all hook points (before/after each file-system effect of write, rotation, symlink replacement, cleanup, compression) are traced; a fresh child is killed at each (point, occurrence) pair (all pairs for small histories, otherwise a subset incl. first/last occurrence of every point); acknowledged records must be in the files, nothing torn/duplicated/reordered; a second child restarts on the directory and must exit 0 with an empty error channel, preserve what the limits permit and keep the limits. Enumeration per history, histories sampled. Round-5 additions: after the restart a configured symlink must resolve to the file written last.",
            "kills at hook points (SIGKILL on self), not inside system calls; for background cleanup the position of the kill relative to the logging thread is schedule dependent",
            "DESIGN.md 4/C11"),
    "C12": ("exploration",
            "systematic enumeration of thread interleavings at hook points (controlled scheduler) over proptest-generated spec sets",
            "2-3 threads each issue one specification change (in ~6% of the cases flexi_logger's own specfile watcher thread is one of the participants); a scheduler parks them at the three hook points of every update - plus, with an additional writer, at a harness-owned point inside the writer's max_log_level() - and executes all 20 / 70 orderings (2 threads) or all 1680 / a sample (3 threads, watcher cases); final filtering must equal exactly one submitted spec and log::max_level must admit it. Exhaustive at hook granularity for each generated spec set without watcher, search over spec sets. Round-5 additions: a harness-owned schedule point at the start of every call (70 orderings for 2 threads), nothing is granted before all threads have arrived, and an epilogue in which every clone that pushed during the concurrent phase pops again.",
            "interleavings below the granularity of the schedule points are not controlled; blocked threads (lock) are detected by a 10 ms timeout which only changes which interleaving is explored; watcher runs depend on the inotify event arriving within 6 s (otherwise the run goes on without the watcher)",
            "DESIGN.md 4/C12"),
    "C16": ("exploration",
            "model-based histories with a listing oracle from the reference name grammar (proptest), path round trip for FileSpec::try_from executed with a per-case cwd",
            "After logger start and after every operation of generated multi-run histories, existing_log_files(selector) is compared (as a set of existing paths) with the directory snapshot filtered by the reference family predicate and the selector; every directory entry must parse with exactly the configured name parts, the [starttime] part must equal the virtual start time, the symlink must point to the current file; generated paths go through FileSpec::try_from -> as_pathbuf and a real logger that must write into exactly that file. Search, not proof.",
            "trusts the reference name grammar; files of earlier starts with another [starttime] count as other families",
            "DESIGN.md 4/C16"),
    "C17": ("exploration",
            "round-trip and differential testing against a reference parser (proptest grammar + mutation + arbitrary Unicode)",
            "Round trips (Display, TOML, specfile) of generated specs compared on the full decision grid; generated/mutated/arbitrary strings parsed by flexi_logger and by a reference parser written from the documented grammar: Err iff malformed, salvaged spec decides like the well-formed parts. Search (30k quick / 1.5M thorough), no proof.",
            "trusts the reference parser; inputs the grammar leaves undefined are only checked for no-panic and Err<=>malformed",
            "DESIGN.md 4/C17"),
    "C18": ("exploration",
            "model-based histories (proptest) with self-checking record payloads; exactly-once / order / location invariants over all files",
            "Generated histories mixing writes, flushes, rotations, external rename/remove + reopen_output, and reset_flw between up to three families (refused resets with another write mode included) in all synchronous write modes; afterwards every record must be found exactly once (unless it sat in an externally removed file), in increasing order inside every file and family, renamed files must hold a contiguous range ending right before their reopen, and records after reopen/reset must be in the original/new family. Search, not proof. Round-5 additions: a second thread that logs while the history runs, also during reopen_output()/reset_flw() (per-thread order, no loss, no duplicate), with a cleanup thread and noise at the hook points.",
            "records between an external rename and reopen are generated only without rotation; records in externally removed files are unobservable",
            "DESIGN.md 4/C18"),
    "C19": ("fault_enumeration",
            "exhaustive single-fault injection (plus sampled bursts) at the file-system hook points of proptest-generated histories, with a stream/report/recovery oracle",
            "For every generated history all hits of the fault-capable points are traced and each is failed once in a fresh run (exhaustive per history), plus bursts of 2-5 consecutive failures; oracle: no panic, intact lines, order kept, only records whose own write (or the writer's initialisation during their call) failed may be missing, failures of write/rename/open are reported on the error channel, and a fault-free tail (record, rotation, record) ends in two different files. Exhaustive over single faults of each explored history; histories are sampled. Later additions: background cleanup thread incl. a directed hold/release schedule for its passes; limits must hold again after the faults; every run replayed through the partition model (exact partition for the fault-free run and for cleanup/compression-only fault plans); a restart in the middle of a third of the histories (faults during the initialisation of the restarted writer); a real-write-failure scenario (RLIMIT_FSIZE 4096 for a window of operations or until shutdown() has returned: EFBIG on every write that extends the log file, in Direct and buffered modes).",
            "faults are injected at hook points directly before the real call (the call itself is skipped); Direct write mode only; real partial writes / ENOSPC mid-write are not modelled",
            "DESIGN.md 4/C19"),
    "C20": ("exploration",
            "reference renderers + JSON decode round trip over proptest-generated records, virtual ticking clock for the one-timestamp clause",
            "Generated records (hostile message text, optional location fields, key-values, recursive Display arguments) through every provided format function, both line endings, all write modes; file bytes must equal reference rendering + exactly one line ending per record (inner records first), coloured output minus SGR sequences must equal the plain rendering, JSON must be one parsable line decoding to the generated values, and all outputs of a record must show the timestamp the recording writer saw (clock advancing 1 us per reading). Search, not proof. Later additions: two levels of recursive logging, use_utc() and flush() after every record and a start time in the file name in child-process cases, an argument whose Display panics (caught) followed by further records.",
            "trusts the reference renderers (written from the documented layouts), serde_json as JSON decoder; stdout/stderr duplicates are covered by C13 (routing) but their timestamps are not parsed here",
            "DESIGN.md 4/C20"),
    "C06": ("exploration",
            "model-based multi-run histories (proptest) with stream-continuation and immutability invariants over directory snapshots",
            "Generated sequences of 2-5 runs (append on/off, writes, rotations, clock gaps from 0 ms to 40 days) with all namings and cleanup strategies and directory manipulations between runs (all rotated files gzipped, current missing, gaps); after every run the gunzipped family stream must be the previous stream plus the run's lines (a suffix of it with cleanup; documented truncation modelled) and every closed file of the previous snapshot must be unchanged or legitimately cleaned up. Search, not proof; found and led to the repair of six restart defects. Later additions: renumbering of the family up to index 99998 between runs (rotations cross r99999 -> r100000), dotted names, build_variant. Round-5 additions: removal of the newest plain file of a direct naming between runs (missing current file), suffix gz.",
            "trusts the name grammar / semantic order and the directory-snapshot comparison; [starttime] part excluded",
            "DESIGN.md 4/C06"),
    "C07": ("exploration",
            "model-based histories (proptest) with cleanup invariants checked after every operation; randomized schedules (hook-point noise) for background executors",
            "Generated histories x cleanup limits k,m in {0,1,2,3,5} x namings x suffixes x executors; upper bounds, contiguous-tail stream oracle (implies lossless compression and no plain twin), current file plain and present, and lower bounds from the reference partition model's count of produced files. Synchronous cleanup is checked after every operation; background/async cleanup after shutdown under seed-chosen scheduling noise (sampling, not enumeration). Later additions: cleanup limits at usize::MAX, dotted names, noise at rotation points, build_variant. Round-5 additions: suffix gz.",
            "trusts the partition model for the number of produced files; schedules of the background cleanup are sampled by the OS + noise only",
            "DESIGN.md 4/C07"),
    "C14": ("exploration",
            "differential twin runs (with vs without foreign entries) over proptest-generated near-miss names, metadata comparison of the foreign entries",
            "The same generated multi-run history is executed in a directory pre-populated with near-miss foreign entries (classified by the reference family predicate) and in an empty directory under the same virtual clock; foreign entries must keep name/inode/size/mtime/bytes, and family files, existing_log_files answers and error counts must be identical between the twins. Search, not proof. Later additions: sub-directories with real family names, directory twins of compressed files planted before later runs, foreign names with non-ASCII digits. Round-5 additions: foreign names that only a lenient timestamp parser accepts (no zero padding, sign, blank), suffix gz.",
            "the reference family predicate (src/observe.rs) defines 'foreign'; sub-directories may also carry real family names that no history produces",
            "DESIGN.md 4/C14"),
    "C08": ("exploration",
            "proptest histories + reference partition model (model-based testing)",
            "Generated size limits, record-length sequences at the limit boundaries, all write modes incl. async, all namings, append restarts; the ordered list of file contents must equal the partition predicted by an independent model (rotate iff size before the write > N, size seeded from the appended file), plus the corollary 'no record appended to a file already above N' checked directly on the files. Search over thousands of cases, no proof. Later additions: records whose own write fails (sync and async modes; the model takes the rotation decision and adds no bytes), external move of the current file + reopen_output(). Round-5 additions: plain reopen_output() and reset_flw() onto the writer's own configuration inside the histories (no flush before them). Round 6: external move + re-creation of an empty file + reopen_output().",
            "trusts the reference partition model (src/model.rs, written from the documentation), the name grammar, tmpfs; restarts of direct-timestamp namings avoided (listed finding under C06) and counted",
            "DESIGN.md 4/C08"),
    "C09": ("exploration",
            "proptest histories under a virtual clock + reference partition model (model-based testing)",
            "Virtual-clock histories with structured instants and advance steps straddling second/minute/hour/day/month/year boundaries, in 6 DST-free time zones; file partition must equal the model (rotate iff local period differs from the period in which the current file was started) and timestamp infixes must equal the instant the content was started. Search, not proof. Later additions: failing writes and external move + reopen_output() as for C08; three real-time cases per run (real clock and real file metadata, Age::Second, 2.3 s tight logging loop; oracle: not more files than seconds seen, no file spanning two seconds). Round-5 additions: plain reopen_output() and reset_flw() onto the same configuration inside the histories; real-time cases that start a logger (and let reopen_output() create a file) right after a second boundary of the wall clock. Round 6: external move + re-creation of an empty file + reopen_output().",
            "trusts the verif_hooks clock redirection (every Local::now() of the file writer and the creation-time lookup), chrono's time-zone conversion, the reference model; async mode and direct-timestamp restarts excluded as stated in the evidence",
            "DESIGN.md 4/C09"),
    "C13": ("exploration",
            "model-based routing check (proptest cases against a routing model), syslog over a unix datagram socket, duplication in a child process with captured pipes",
            "Generated writer sets (custom recorder, FileLogWriter with max_level, SyslogWriter with max_log_level), brace lists over registered/unknown names and _Default, levels, specs and module paths, Duplicate settings with run-time adaptation in a child process; what every writer, the default channel, stderr, stdout and the error channel receive must equal the routing model exactly (each record once, nobody else). Search, not proof. Later additions: a File writer whose every write fails (nothing meant for it may reach anybody else), WriteMode::SupportCapture, a syslog writer over TCP (listener on the loopback interface), child processes with fd 2 closed (failing duplicate stream).",
            "trusts the routing model (src/props/c13.rs) and the reference matcher; brace lists without repeated names or blanks",
            "DESIGN.md 4/C13"),
    "C15": ("exploration",
            "differential testing across write modes (proptest) + enumerated single-byte chunks",
            "The same generated record or raw-chunk sequence is run under Direct, buffered and async modes; ordered file contents must agree with the Direct run and with the partition model, chunk concatenation must equal the input; all 256 single-byte chunk values are enumerated. Search, not proof. Later additions: the list of all files including empty ones is compared with the Direct run; short counts from io::Write::write are followed up as write_all does; a pause after every flush in async modes. Round-5 additions: reopen_output() as an item of the sequences. Round 6: records whose format function reports an error after writing the text.",
            "trusts the Direct mode only as the differential reference (also compared with the model)",
            "DESIGN.md 4/C15"),
}

ALL = ["C%02d" % i for i in range(1, 21)]

# thorough tier only: coverage-guided stage (tools/fuzz_stage.py)
_PC = "; thorough tier additionally: coverage-guided fuzzing (libFuzzer) of the same strategy and oracle (target prop_case: the fuzzer's bytes are the strategy's random stream)"
FUZZ_NOTE = {p: _PC for p in ["C01", "C02", "C05", "C06", "C07", "C08", "C09", "C14", "C15", "C16", "C18", "C19"]}
FUZZ_NOTE["C10"] = _PC + " and of a byte-level target (target_route: target string/level/module/message against the routing model)"
FUZZ_NOTE["C17"] = _PC + " and of a byte-level target (spec_parse: bytes -> LogSpecification::parse against the reference parser)"
FUZZ_NOTE["C13"] = "; thorough tier additionally: coverage-guided fuzzing (libFuzzer) of a byte-level target (target_route: target string/level/module/message against the routing model)"

def hook_commits():
    try:
        out = subprocess.check_output(["git", "-C", "/repo", "log", "--format=%H %s"], text=True)
    except Exception:
        return []
    return [l.split()[0] for l in out.splitlines() if "verif hooks" in l]

def main():
    checks = []
    for pid in ALL:
        if pid not in CHECKS:
            continue
        level, technique, text, note, ref = CHECKS[pid]
        checks.append({
            "property_id": pid,
            "quick_cmd": f"./check.sh {pid} quick",
            "thorough_cmd": f"./check.sh {pid} thorough",
            "evidence_file": f"/verif/evidence/{pid}.json",
            "replay_cmd_template": f"./replay.sh {pid} {{path}}",
            "engine": "flv",
            "level_claimed": {"category": level, "text": text, "design_ref": ref},
            "level_note": note,
            "technique": technique + (FUZZ_NOTE.get(pid, "")),
        })
    na = [{"property_id": p, "reason": "check not built yet in this session (planned, see DESIGN.md section 4); no claim is made"}
          for p in ALL if p not in CHECKS]
    m = {
        "version": 1,
        "setup_cmd": "cd /verif/harness && CARGO_NET_OFFLINE=true cargo build --release --offline",
        "hooks": {
            "guard": "cargo feature verif_hooks (flexi_logger)",
            "enable": "the harness crate /verif/harness depends on flexi_logger by path /repo with features [async, compress, json, kv, buffer_writer, syslog_writer, specfile_without_notification, verif_hooks] (C12 only: additionally specfile, through the harness feature `watcher`, second build in harness/target-w); check.sh runs `cargo build --release --offline` before every check, so the current working tree of /repo is rebuilt",
            "baseline_off_cmd": "cd /repo && cargo nextest run --workspace --no-fail-fast --tool-config-file pb:/w/lib/nextest.toml --profile pb --test-threads 8 --offline",
            "source_commits": hook_commits(),
            "add_only": True,
        },
        "engines": [
            {"name": "flv", "path": "/verif/harness", "serves_properties": sorted(CHECKS.keys()),
             "kind_free_text": "Rust binary: proptest strategies driven from a TestRunner with fixed seeds, sharded over worker processes; scenario interpreter against the real flexi_logger + reference models; shrinking to JSON replay files; regression replay tier (regress/)"},
            {"name": "flv-fuzz", "path": "/verif/fuzz", "serves_properties": sorted(FUZZ_NOTE.keys()),
             "kind_free_text": "cargo-fuzz crate (libFuzzer, nightly toolchain, no sanitizer) with three targets: prop_case (a property's proptest strategy driven by the fuzzer's bytes through a pass-through RNG, judged by the property's oracle; failures become ordinary JSON replay files), spec_parse and target_route (byte-level targets with the semantic oracle inside). Driven by /verif/tools/fuzz_stage.py from check.sh in the thorough tier: fixed -runs/-seed per job, 8 jobs, fresh corpus + /verif/fuzz/seeds, every failure verified in a fresh process before it is reported; statistics merged into the evidence file. Built with a patched copy of proptest (fuzz/vendor/proptest, pass-through RNG only)."},
        ],
        "checks": checks,
        "not_applicable": na,
        "notes": "VERIF_SEED selects the PRNG stream (default 0). Exit codes: 0 held, 1 violation (VIOLATION line), 2 inconclusive (watchdog / infrastructure). Known findings: /verif/known_findings.txt.",
    }
    with open(os.path.join(ROOT, "MANIFEST.json"), "w") as f:
        json.dump(m, f, indent=1)
    print("wrote MANIFEST.json with", len(checks), "checks;", len(na), "not applicable")

if __name__ == "__main__":
    main()
